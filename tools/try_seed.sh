#!/bin/sh
# tools/try_seed.sh <name> <patch.diff> <check ids...>: run checks against a scratch checkout with the seeded change applied
name=$1; patch=$(realpath $2); shift 2
wt=/tmp/seedwt/$name
rm -rf $wt; git -C /repo worktree prune; git -C /repo worktree add -q --detach $wt HEAD || exit 3
(cd $wt && git apply $patch) || { echo "$name: PATCH DOES NOT APPLY"; git -C /repo worktree remove --force $wt; exit 3; }
cd /verif
for c in "$@"; do
  VERIF_REPO=$wt VERIF_EVIDENCE_DIR=/tmp/seedwt/ev_$name ./check $c --tier ${TIER:-quick} > /tmp/seedwt/$name.$c.log 2>&1; rc=$?
  echo "$name $c exit=$rc $(grep -c '^VIOLATION' /tmp/seedwt/$name.$c.log) violation lines; $(tail -1 /tmp/seedwt/$name.$c.log | cut -c1-200)"
done
git -C /repo worktree remove --force $wt; rm -rf /tmp/seedwt/ev_$name
