#!/bin/sh
# tools/refactor_matrix.sh <outfile> <name:check,check...> ...  - behaviour-preserving refactorings must leave every check at exit 0
out=$1; shift
for item in "$@"; do
  name=${item%%:*}; checks=$(echo ${item#*:} | tr ',' ' ')
  wt=/tmp/seedwt/$name
  rm -rf $wt; git -C /repo worktree prune; git -C /repo worktree add -q --detach $wt HEAD || continue
  (cd $wt && git apply /verif/refactors/$name/patch.diff) || { echo "$name: PATCH DOES NOT APPLY" >> $out; git -C /repo worktree remove --force $wt; continue; }
  for c in $checks; do
    VERIF_REPO=$wt VERIF_EVIDENCE_DIR=/tmp/seedwt/ev_$name ./check $c > /tmp/seedwt/$name.$c.log 2>&1; rc=$?
    echo "$name $c exit=$rc $(grep -c '^VIOLATION' /tmp/seedwt/$name.$c.log) violation lines; $(grep -c '^note: canary' /tmp/seedwt/$name.$c.log) canaries n/a; $(tail -1 /tmp/seedwt/$name.$c.log | cut -c1-160)" >> $out
  done
  git -C /repo worktree remove --force $wt; rm -rf /tmp/seedwt/ev_$name
done
echo DONE >> $out
