#!/bin/sh
# kill running check processes (pattern kept out of the caller's command line)
for p in $(pgrep -f "vsym[.]harness import main"); do pkill -9 -P $p; kill -9 $p; done
pkill -9 -f "multiprocessing[.]spawn" 2>/dev/null
true
