#!/bin/sh
# tools/intake_seed.sh <name> <agent worktree> <check ids...>: copy a sub-agent's _out/ into seeded/<name>/, vet it in a fresh
# scratch worktree (tools/vet_seed.sh) and run the named checks against it (tools/try_seed.sh); results go to /tmp/intake/<name>.log
name=$1; src=$2; shift 2
cd /verif; mkdir -p seeded/$name /tmp/intake
cp $src/_out/patch.diff $src/_out/demo.py seeded/$name/ || exit 3
cp $src/_out/notes.txt seeded/$name/notes.txt 2>/dev/null
{ tools/vet_seed.sh $name seeded/$name/patch.diff seeded/$name/demo.py; tools/try_seed.sh $name seeded/$name/patch.diff "$@"; } > /tmp/intake/$name.log 2>&1
cat /tmp/intake/$name.log
