#!/usr/bin/env python3
"""Regenerate seeded/README.md from seeded/*/meta.json."""
import glob, json, os
ROOT = os.path.dirname(os.path.dirname(os.path.abspath(__file__)))
rows = []
for d in sorted(glob.glob(os.path.join(ROOT, "seeded", "*", "meta.json"))):
    m = json.load(open(d))
    name = os.path.basename(os.path.dirname(d))
    cr = m.get("checks_run", {})
    caught = [f"{k} ({v})" for k, v in cr.items() if str(v).startswith("caught")]
    missed = [f"{k} ({v})" for k, v in cr.items() if not str(v).startswith("caught")]
    rows.append((name, m["breaks_property"], m["change"], m["needs_to_manifest"], "; ".join(caught) or "-", "; ".join(missed) or "-"))
with open(os.path.join(ROOT, "seeded", "README.md"), "w") as fh:
    fh.write("# Seeded changes and the checks run against them\n\nEach change was written by an independent sub-agent given only the property text and a scratch worktree, "
             "then vetted in a fresh scratch worktree (`tools/vet_seed.sh`: demo passes without / fails with the patch; pinned test suite unchanged) and run "
             "against the checks with `tools/try_seed.sh` (scratch checkout + `VERIF_REPO`).\n\n| seed | property | change | needs | caught by | run but not caught by |\n|---|---|---|---|---|---|\n")
    for r in rows:
        fh.write("| " + " | ".join(x.replace("|", "/") for x in r) + " |\n")
print(len(rows), "seeds")
