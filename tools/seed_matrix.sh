#!/bin/sh
# tools/seed_matrix.sh <outfile> <seed:check,check...> ...   (sequential; each line of outfile is one result)
out=$1; shift
export VERIF_JOB_BUDGET_S=${VERIF_JOB_BUDGET_S:-400}
for item in "$@"; do
  seed=${item%%:*}; checks=$(echo ${item#*:} | tr ',' ' ')
  tools/try_seed.sh $seed seeded/$seed/patch.diff $checks >> $out 2>&1
done
echo DONE >> $out
