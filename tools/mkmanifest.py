#!/usr/bin/env python3
"""Regenerate MANIFEST.json from the table below (claimed checks) + properties.jsonl (everything else -> not_applicable)."""
import json, os
ROOT = os.path.dirname(os.path.dirname(os.path.abspath(__file__)))
TECH = "symbolic execution of the real phyclone modules over z3 real terms (own engine vsym: numpy facade + un-jitted numba bodies, per-path re-execution); z3 decides path feasibility and the negated property per path; counterexamples replayed on the unpatched code"
CLAIMED = {
 "C02": dict(ref="§3 C02", text="Bounded solver-decided identity: for every forest shape with <= 4 (quick) / 5 (thorough) clones, grid 3 (thorough also 4, 5 and one FFT-dispatch instance at 1000), 1-2 samples, z3 proves reported root likelihood == brute-force grid marginal for ALL positive real data (unsat of the negation), and that every reported value is finite. Nothing is claimed about IEEE rounding, the 1e-100 floor or FFT round-off.",
             note="Trusted: the engine's exact-arithmetic numpy facade and stubs listed in evidence (fftconvolve = exact convolution, xxh3 collision-free); real not float arithmetic; sizes beyond the bound are outside the claim."),
 "C03": dict(ref="§3 C03", text="Bounded solver-decided identity: for every forest on <= 3 (quick) / 4 (thorough) data points incl. every outlier subset, built through up to 10 edit histories, z3 proves log_p, log_p_one, the fused variant and TreeHolder copies equal the FS-CRP oracle written from the statement, for all positive data, alpha, outlier probabilities; ==/hash facts are exhaustive ground checks over all forest pairs.",
             note="Trusted: oracle in vsym/spec/fscrp.py (independent of the code), C02's brute-force marginal for the data term, engine stubs; real arithmetic; n > 4 outside."),
 "C08": dict(ref="§3 C08", text="Bounded solver-decided identities per (proposal kind, parent state, next data point): support == independent enumeration of placements; sum of reported probabilities == 1; probability of drawing each tree (all RNG outcomes enumerated with exact probabilities) == its reported probability; incremental weight x proposal probability == target ratio (oracle joint x 1/#compatible orders); last-step correction to the fixed-root target - for all positive data, alpha, outlier priors and outlier proposal probability in (0,1). Parents: None and every forest on <= 2 (quick) / 3 (thorough) placed points incl. outlier-only parents.",
             note="Trusted: C03 oracle and brute-force order count as targets; engine stubs; `if not log_p` zero-sentinel paths cut by assumption (explored in C03); real arithmetic; grid 2, one sample."),
 "C01": dict(ref="§3 C01", text="Bounded solver-decided invariance: the real particle-Gibbs update is run from every tree of the independently enumerated state space under an enumerating RNG, giving exact symbolic transition rows; z3 proves row sums == 1 and sum_t gamma(t)K(t,t') == gamma(t') on every cell of the data-dependent (ESS) decisions. n <= 2 data points, N = 2 particles, grid 2, thresholds {0, 3/4, 1}, three proposals x {library, run-command wiring} x outliers {off: fully symbolic data and alpha; on: three coordinate slices with the remaining unknowns at stated rationals}; thorough adds n = 3 slices, N = 3, grid 3.",
             note="Trusted: gamma from the real log_p_one (C03's subject); engine stubs; zero-sentinel paths cut by assumption; with outliers on the identity is decided on coordinate slices (fully symbolic form is beyond z3: unknown after 300 s); validity of particle Gibbs as an algorithm is not re-proved, the code's exact transition law is checked within the bounds."),
 "C04": dict(ref="§3 C04", text="Bounded solver-decided invariance of each auxiliary move (same construction as C01: exact symbolic transition rows from every tree, z3 proves row sums and sum_t gamma(t)K(t,t') == gamma(t') per cell): data-point Gibbs (outliers off/on) and prune-regraft at n=2 (fully symbolic / slices) and n=3 (coordinate slices; thorough also fully symbolic without outliers); subtree particle Gibbs at n=2 for three proposals x {library, run} wiring x thresholds {1/2,1} (+ outlier slices), its conditional block kernel at n=3, and the full subtree move at n=3 with alpha symbolic (a recorded known finding).",
             note="Trusted: as C01; unknowns outside a slice are held at the rationals in checks/c01.py:ANCHOR; composition of invariant kernels is invariant (not re-derived); one open known finding (subtree selection) listed in known_findings.json."),
 "C09": dict(ref="§3 C09", cat="exploration", tech="exhaustive bounded exploration of the real permutation sampler under an enumerating RNG with exact rational probabilities (the solver-based engine with no symbolic numeric input: all queries ground)", text="No numeric input exists, so the engine degenerates to exhaustive bounded exploration with exact arithmetic: for every forest on <= 4 (quick) / 5 (thorough) data points incl. outlier subsets, the set of orders produced over all shuffle outcomes == brute-force linear extensions, each has probability exactly 1/#orders, and exp(-log_pdf) == #orders exactly.",
             note="Trusted: lgamma exact at integers (stub); brute-force enumeration of compatible orders as oracle; n > 5 outside."),
 "C06": dict(ref="§3 C06", text="Bounded exhaustive exploration of edit histories (choice points over the samplers' edit grammar, <= 3 edits from start forests on 1-2 points, <= 2 from 3 points; thorough one more) executed on the real Tree with symbolic data; after each history every still-reachable tree is compared with a from-scratch rebuild of the independently tracked abstract forest: z3 decides equality of every node's log_p/log_r entry and of both joint densities for all positive data and alpha.",
             note="Trusted: the abstract edit model in vsym/edits.py; engine stubs; real arithmetic (rounding drift of repeated add/remove outside); the virtual root's vector of a clone-less tree is not compared (no single fresh value exists: Tree() leaves zeros, update()/from_dict write the prior; nothing reads it)."),
 "C07": dict(ref="§3 C07", cat="exploration", tech="bounded exhaustive exploration of edit histories and of sampler runs under an enumerating RNG on the real code with symbolic data; z3 decides which data-dependent (ESS) branches exist; the structural invariant itself is a ground assertion on every resulting tree", text="Ground structural invariant (one parent, reachability, name<->index bijection, _data <-> payload agreement, partition of the data set) asserted on every live tree of every edit history (C06 grammar, one edit deeper) and on the result of every path of burn-in SMC, particle Gibbs, subtree PG (three proposals, run wiring), data-point and prune-regraft moves from every start tree (n <= 2 quick, 3 thorough), outliers off/on.",
             note="The invariant has no numeric input, so the solver's part is limited to path feasibility; coverage is the bounded-exhaustive set of histories and random outcomes."),
}
NA = {
 "C17": "all logic is inside pandas (read_table, groupby/transform, sort_values, .at): symbolic tables cannot cross into it and an SMT model of those calls would verify the model, not the code; the one pure-Python rule (major < minor raises) is covered under C05",
 "C18": "the quantifier ranges over OS process schedules and interpreter hash seeds, which are not inputs of any function that can be executed symbolically (ProcessPoolExecutor, SeedSequence.spawn, PYTHONHASHSEED)",
 "C20": "the accept/reject decision on a truncated stream is taken inside zlib and _pickle (C code); the crash-point index is not a value Python-level code inspects, so there is nothing to encode; enumerating prefixes concretely would be a different technique",
}
def main():
    props = [json.loads(l) for l in open(os.path.join(ROOT, "properties.jsonl"))]
    checks = []
    for p in props:
        pid = p["id"]
        if pid not in CLAIMED or not os.path.exists(os.path.join(ROOT, "checks", pid.lower() + ".py")):
            continue
        c = CLAIMED[pid]
        checks.append({"property_id": pid, "quick_cmd": f"./check {pid} --tier quick", "thorough_cmd": f"./check {pid} --tier thorough",
                       "evidence_file": f"evidence/{pid}.json", "replay_cmd_template": f"./check {pid} --replay {{path}}", "engine": "vsym",
                       "level_claimed": {"category": c.get("cat", "other"), "text": c["text"], "design_ref": c["ref"]},
                       "level_note": c["note"], "technique": c.get("tech", TECH)})
    claimed = {c["property_id"] for c in checks}
    na = [{"property_id": p["id"], "reason": NA.get(p["id"], "check not built yet (work in progress in this session)")} for p in props if p["id"] not in claimed]
    m = {"version": 1, "setup_cmd": "./setup.sh",
         "hooks": {"guard": "ROTH_LAB_PHYCLONE_VERIF", "enable": "no source hooks: the engine rebinds module attributes of /repo's phyclone package inside the checking process only", "baseline_off_cmd": "cd /repo && /venv/bin/python -m pytest -ra -q -p no:cacheprovider --timeout=900 --continue-on-collection-errors", "source_commits": [], "add_only": True},
         "engines": [{"name": "vsym", "path": "vsym/", "serves_properties": sorted(claimed), "kind_free_text": "symbolic execution of the real phyclone modules on numpy object arrays of z3-backed scalars (division-free pair encoding); z3 decides path feasibility and the final assertions; enumerating RNG gives exact transition rows"}],
         "checks": checks, "not_applicable": na,
         "notes": "Exit codes: 0 held (possibly KNOWN-FINDING lines), 1 VIOLATION (replay-confirmed on the unpatched code), 2 inconclusive/harness error (never success). Known findings and fixed defects: known_findings.json."}
    json.dump(m, open(os.path.join(ROOT, "MANIFEST.json"), "w"), indent=1)
    print("claimed", sorted(claimed), "n/a", len(na))
if __name__ == "__main__":
    main()
