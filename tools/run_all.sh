#!/bin/sh
# tools/run_all.sh [quick|thorough]: run every claimed check against /repo, rewrite evidence/, validate it; prints one line per check
cd "$(dirname "$0")/.."
tier=${1:-quick}
./setup.sh >/dev/null 2>&1
rc_all=0
for c in C01 C02 C03 C04 C05 C06 C07 C08 C09 C10 C11 C12 C13 C14 C15 C16 C19; do
  s=$(date +%s); ./check $c --tier $tier > logs_$c.txt 2>&1; rc=$?; e=$(date +%s)
  mkdir -p logs; mv logs_$c.txt logs/$c.$tier.log
  echo "$c exit=$rc wall=$((e-s))s $(grep -c '^KNOWN-FINDING' logs/$c.$tier.log) known-finding line(s); $(tail -1 logs/$c.$tier.log | cut -c1-160)"
  [ $rc -ne 0 ] && rc_all=1
done
.venv/bin/python - <<'PY'
import json, glob, jsonschema
sch = json.load(open('/root/.vp/EVIDENCE.schema.json'))
for f in sorted(glob.glob('evidence/*.json')):
    jsonschema.validate(json.load(open(f)), sch)
jsonschema.validate(json.load(open('MANIFEST.json')), json.load(open('/root/.vp/MANIFEST.schema.json')))
print("evidence and manifest validate")
PY
exit $rc_all
