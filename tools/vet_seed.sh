#!/bin/sh
# tools/vet_seed.sh <name> <patch.diff> <demo.py>  -- confirm a seeded change independently in a scratch worktree:
#   demo passes on HEAD, fails with the patch; the pinned test suite still has exactly the baseline outcome.
name=$1; patch=$(realpath $2); demo=$(realpath $3)
wt=/tmp/vet/$name
rm -rf $wt; git -C /repo worktree prune; git -C /repo worktree add -q --detach $wt HEAD || exit 3
cd $wt
out=/tmp/vet/$name.log; : > $out
mkdir -p $wt/_out; cp $demo $wt/_out/demo.py; demo=$wt/_out/demo.py   # demos locate the checkout as the parent of their own directory or the cwd
PYTHONPATH=$wt /venv/bin/python $demo >>$out 2>&1; a=$?
git apply $patch || { echo "$name: PATCH DOES NOT APPLY" | tee -a $out; git -C /repo worktree remove --force $wt; exit 3; }
PYTHONPATH=$wt /venv/bin/python $demo >>$out 2>&1; b=$?
PYTHONPATH=$wt /venv/bin/python -m pytest -q -p no:cacheprovider --timeout=900 --continue-on-collection-errors phyclone/tests 2>&1 | tail -3 >> $out
t=$(grep -E "passed|failed" $out | tail -1)
cd /; git -C /repo worktree remove --force $wt
echo "$name: demo_without=$a demo_with=$b tests: $t" | tee -a $out
