"""Explorer + solver front end.

Paths are explored depth-first by re-execution with a decision prefix (as CrossHair does).
One trace holds both kinds of choice point:
  * data-dependent decisions (truth value of a symbolic Boolean): z3 decides which sides
    are feasible under the current path condition; both feasible -> fork;
  * random draws (vsym.forkrng): every outcome is an alternative carrying its exact,
    possibly symbolic, probability.
"""
import time
from fractions import Fraction

import z3

from . import vq
from .vq import V, REG, EncodingGap, relevant_defs


class PathAbort(BaseException):
    """Current path is infeasible (path-steering; deliberately not an Exception)."""


class Inconclusive(Exception):
    """Solver answered unknown / timed out on a query that needed an answer."""


class Desync(Exception):
    """Re-execution with a prefix did not meet the same choice points (harness error)."""


class Path:
    __slots__ = ("result", "prob", "pc", "trace", "exc", "info")

    def __init__(self, result, prob, pc, trace, exc=None, info=None):
        self.result = result
        self.prob = prob
        self.pc = pc
        self.trace = trace
        self.exc = exc
        self.info = info


class Ctx:
    def __init__(self):
        self.query_timeout_ms = 120000
        import os as _os
        self.cross_left = int(_os.environ.get("VERIF_CROSSCHECK") or (20 if _os.environ.get("VERIF_TIER_ACTIVE") == "thorough" else 3))
        self.deadline = None          # wall-clock budget of the current job (set by the harness); exceeding it is inconclusive
        self.stats = {"queries": 0, "solver_s": 0.0, "sat": 0, "unsat": 0, "unknown": 0,
                      "paths": 0, "forks": 0, "aborted": 0, "sign_shortcuts": 0}
        self.new_session()

    # -- sessions -----------------------------------------------------------
    def new_session(self):
        """Forget all symbols (call between independent problem instances)."""
        REG.reset()
        self.assumptions = []
        self.sentinel_mode = "fork"     # or "assume"
        self.sentinel_assumed = []
        self.prefix = []
        self.trace = []
        self.pc = []
        self.probs = []
        self.pending = []
        self.float_mode = False
        self.max_paths = None
        self.dcache = {}

    def assume(self, b):
        if isinstance(b, bool):
            if not b:
                raise EncodingGap("assumption is syntactically false")
            return
        self.assumptions.append(b)

    # -- solver -------------------------------------------------------------
    def check(self, formulas, timeout_ms=None, want_model=False, use_pc=False, box=None):
        """Satisfiability of assumptions + relevant definitions + formulas."""
        fs = [f for f in formulas if not isinstance(f, bool)]
        if any(isinstance(f, bool) and not f for f in formulas):
            return ("unsat", None)
        if self.deadline is not None and time.time() > self.deadline:
            raise Inconclusive("job wall-clock budget exceeded")
        core = list(self.assumptions) + list(self.sentinel_assumed) + (list(self.pc) if use_pc else []) + fs
        defs, names = relevant_defs(core)
        s = z3.Solver()
        s.set("timeout", int(timeout_ms or self.query_timeout_ms))
        for n in names:
            ent = REG.variables.get(n)
            if ent is not None and ent[1]:
                s.add(ent[0] > 0)
            if box is not None and ent is not None and not n.startswith("__"):
                s.add(ent[0] >= box[0], ent[0] <= box[1])
        for d in defs:
            s.add(d)
        for f in core:
            s.add(f)
        t0 = time.time()
        # z3's own timeout is not always honoured inside nlsat: a watchdog interrupts the context shortly after it
        import threading
        budget = int(timeout_ms or self.query_timeout_ms) / 1000.0
        wd = threading.Timer(budget * 1.25 + 5, z3.main_ctx().interrupt)
        wd.daemon = True
        wd.start()
        try:
            r = str(s.check())
        except z3.Z3Exception:
            r = "unknown"
        finally:
            wd.cancel()
        dt = time.time() - t0
        self.stats["queries"] += 1
        self.stats["solver_s"] += dt
        self.stats[r if r in ("sat", "unsat") else "unknown"] += 1
        if self.cross_left > 0 and r in ("sat", "unsat") and dt < 5.0:
            self._crosscheck(s, r)
        model = None
        if r == "sat" and want_model:
            model = s.model()
        return (r, model)

    def _crosscheck(self, solver, verdict):
        """Second opinion from cvc5 on a sample of the queries z3 decided quickly (thorough tier / VERIF_CROSSCHECK):
        a definite disagreement is a harness error; cvc5 `unknown` / timeout is only counted."""
        self.cross_left -= 1
        import os as _os
        import subprocess
        import sys as _sys
        txt = "(set-logic QF_NRA)\n" + solver.to_smt2()
        root = _os.path.dirname(_os.path.dirname(_os.path.abspath(__file__)))
        try:
            pr = subprocess.run([_sys.executable, "-m", "vsym.cvc5ask"], input=txt, capture_output=True, text=True, timeout=25, cwd=root)
            out = pr.stdout.strip().splitlines()[-1] if pr.returncode == 0 and pr.stdout.strip() else "error"
        except subprocess.TimeoutExpired:
            out = "unknown"
        if out == "error":
            self.stats["cross_error"] = self.stats.get("cross_error", 0) + 1
            return
        self.stats["cross_checked"] = self.stats.get("cross_checked", 0) + 1
        if out == verdict:
            self.stats["cross_agree"] = self.stats.get("cross_agree", 0) + 1
        elif out in ("sat", "unsat"):
            raise Inconclusive(f"solver disagreement: z3 {verdict}, cvc5 {out}")
        else:
            self.stats["cross_unknown"] = self.stats.get("cross_unknown", 0) + 1

    def feasible(self, b):
        r, _ = self.check([b], use_pc=True)
        if r == "unknown":
            # retry once with a longer budget, then give up loudly
            r, _ = self.check([b], use_pc=True, timeout_ms=4 * self.query_timeout_ms)
            if r == "unknown":
                raise Inconclusive(f"feasibility query unknown: {str(b)[:200]}")
        return r == "sat"

    def prove(self, claim, extra=(), use_pc=True, timeout_ms=None, want_model=True, box=None):
        """Returns ('unsat', None) when `claim` holds under assumptions (+ path condition),
        ('sat', model) with a counter-model, or ('unknown', None)."""
        if isinstance(claim, bool):
            if claim:
                return ("unsat", None)
            neg = z3.BoolVal(True)
        else:
            neg = z3.Not(claim)
        return self.check(list(extra) + [neg], use_pc=use_pc, timeout_ms=timeout_ms, want_model=want_model, box=box)

    def prove_positive(self, v, depth=0):
        """Is the V `v` provably > 0 under assumptions and the current path condition?  Proved atom by atom (each
        unknown-sign atom gets its own small query; a max variable is positive as soon as one argument is), and the
        sign flags of atoms proved positive are upgraded - sound, and never changes the choice-point trace."""
        if v.is_const():
            return v.c > 0
        if v.c <= 0:
            return False
        ok = True
        for i in list(v.at):
            term, pos = REG.atoms[i]
            if pos:
                continue
            good = False
            if z3.is_const(term) and term.decl().name() in REG.max_args and depth < 3:
                good = any(self.prove_positive(a, depth + 1) for a in REG.max_args[term.decl().name()])
            if not good:
                r, _ = self.check([term <= 0], use_pc=True, timeout_ms=20000)
                good = (r == "unsat")
            if good and not self.pc:
                REG.atoms[i] = (term, True)
                if z3.is_const(term) and term.decl().name() in REG.variables:
                    REG.variables[term.decl().name()] = (term, True)
            elif good:
                REG.path_pos.add(i)
            ok = ok and good
            if not ok:
                return False
        v._pos = None
        return True

    # -- choice points ------------------------------------------------------
    def _next(self, kind, nalt, tag):
        """Index to take at this choice point, or None when beyond the prefix."""
        i = len(self.trace)
        if i < len(self.prefix):
            k, c, t = self.prefix[i]
            if k != kind or (t is not None and tag is not None and t != tag):
                raise Desync(f"choice point {i}: recorded {k}/{t}, now {kind}/{tag}")
            return c
        return None

    def decide(self, b):
        """Truth value of a symbolic Boolean on the current path.  Forced outcomes (one side infeasible
        under the path condition) leave no trace entry, so sign-analysis shortcuts taken on a later
        re-execution cannot desynchronise the prefix; only real forks are choice points."""
        if isinstance(b, bool):
            return b
        b = vq._simp(b)
        if isinstance(b, bool):
            return b
        key = (b.get_id(),) + tuple(x.get_id() for x in self.pc)
        hit = self.dcache.get(key)
        if hit is None:
            t_ok = self.feasible(b)
            f_ok = self.feasible(z3.Not(b)) if t_ok else True
            hit = (t_ok, f_ok, b, list(self.pc))   # keep the terms alive: ast ids stay unique
            self.dcache[key] = hit
        t_ok, f_ok = hit[0], hit[1]
        if not (t_ok and f_ok):
            return bool(t_ok)
        tag = b.hash()
        c = self._next("d", 2, tag)
        if c is None:
            self.stats["forks"] += 1
            self.pending.append(self.trace + [("d", 1, tag)])
            c = 0
        self.trace.append(("d", c, tag))
        v = (c == 0)
        self.pc.append(b if v else z3.Not(b))
        return v

    def sentinel(self, logobj):
        """Truthiness of a symbolic log-domain float (value != 0.0, i.e. e != 1)."""
        b = logobj.e.ne(V(1))
        if isinstance(b, bool):
            return b
        if self.sentinel_mode == "assume":
            key = b.hash()
            if all(x.hash() != key for x in self.sentinel_assumed):
                self.sentinel_assumed.append(b)
            return True
        return self.decide(b)

    def choose(self, probs, labels=None):
        """Random choice among len(probs) alternatives with the given probabilities."""
        n = len(probs)
        if n == 1:
            self.probs.append(probs[0])
            return 0
        c = self._next("c", n, n)
        if c is None:
            live = [i for i in range(n) if not _is_zero(probs[i])]
            if not live:
                raise PathAbort()
            for alt in reversed(live[1:]):
                self.pending.append(self.trace + [("c", alt, n)])
            c = live[0]
        self.trace.append(("c", c, n))
        self.probs.append(probs[c])
        return c

    def fork(self, n, tag=None):
        """Plain n-way nondeterministic choice (no probability attached)."""
        if n == 1:
            return 0
        c = self._next("n", n, n)
        if c is None:
            for alt in range(n - 1, 0, -1):
                self.pending.append(self.trace + [("n", alt, n)])
            c = 0
        self.trace.append(("n", c, n))
        return c

    # -- exploration --------------------------------------------------------
    def path_prob(self):
        if self.float_mode:
            p = 1.0
            for x in self.probs:
                p *= float(x)
            return p
        p = V(1)
        for x in self.probs:
            p = p * _as_v(x)
        return p

    def explore(self, fn, before_path=None, catch=(), max_paths=None):
        """Run fn() once per feasible path; returns the list of Path objects."""
        self.pending = [[]]
        out = []
        from . import patcher as _pt
        tracing = _pt.TRACE.active
        while self.pending:
            if tracing and len(out) == _pt.TRACE.TRACED_PATHS:
                _pt.TRACE.pause()
            if self.deadline is not None and time.time() > self.deadline:
                raise Inconclusive("job wall-clock budget exceeded")
            prefix = self.pending.pop()
            self.prefix = prefix
            self.trace = []
            self.pc = []
            self.probs = []
            REG.path_pos = set()
            if before_path is not None:
                before_path()
            try:
                r = fn()
                exc = None
            except PathAbort:
                self.stats["aborted"] += 1
                continue
            except catch as e:  # noqa
                r = None
                exc = e
            self.stats["paths"] += 1
            out.append(Path(r, self.path_prob(), list(self.pc), list(self.trace), exc))
            if max_paths is not None and len(out) > max_paths:
                raise Inconclusive(f"more than {max_paths} paths")
        self.prefix = []
        self.trace = []
        self.pc = []
        self.probs = []
        REG.path_pos = set()
        if tracing:
            _pt.TRACE.resume()
        return out


def _is_zero(p):
    if isinstance(p, V):
        return p.is_zero()
    from .scalars import Lin
    if isinstance(p, Lin):
        return p.e.is_zero()
    try:
        return p == 0
    except Exception:
        return False


def _as_v(x):
    from .scalars import Lin
    if isinstance(x, V):
        return x
    if isinstance(x, Lin):
        return x.e
    return V(vq.to_fraction(x))


CTX = Ctx()
