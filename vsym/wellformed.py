"""C07's structural invariant, written from the property statement against Tree's observable state:
rooted forest under one virtual root, one parent per clone, every clone reachable, unique names consistently
mapped to graph positions, each data point in exactly one clone or the outlier set."""
import rustworkx as rx


def problems(tree, expected_idxs=None):
    out = []
    g = tree._graph
    root_name = tree.root_node_name
    outl = tree.outlier_node_name
    ni, nir = tree._node_indices, tree._node_indices_rev
    # name <-> index maps are mutually inverse and cover exactly the graph's nodes
    if set(ni.values()) != set(g.node_indices()):
        out.append(f"_node_indices values {sorted(ni.values())} != graph indices {sorted(g.node_indices())}")
    if {v: k for k, v in ni.items()} != dict(nir):
        out.append("_node_indices and _node_indices_rev are not inverse of each other")
    names = []
    for idx in g.node_indices():
        payload = g[idx]
        names.append(payload.node_id)
        if nir.get(idx) != payload.node_id:
            out.append(f"payload name {payload.node_id!r} at graph index {idx} but _node_indices_rev says {nir.get(idx)!r}")
    if len(set(names)) != len(names):
        out.append(f"duplicate clone names {names}")
    if root_name not in ni:
        out.append("virtual root missing")
        return out
    ridx = ni[root_name]
    # one parent each, root has none, all reachable, no cycles
    for idx in g.node_indices():
        indeg = g.in_degree(idx)
        if idx == ridx:
            if indeg != 0:
                out.append("virtual root has a parent")
        elif indeg != 1:
            out.append(f"clone {g[idx].node_id!r} has {indeg} parents")
    reach = set(rx.descendants(g, ridx)) | {ridx}
    if reach != set(g.node_indices()):
        out.append("clones unreachable from the virtual root")
    if g.num_edges() != g.num_nodes() - 1:
        out.append(f"{g.num_edges()} edges for {g.num_nodes()} nodes")
    # data: _data <-> payload data_points agree; partition of the data set
    seen = {}
    for name, dps in tree._data.items():
        if name == root_name:
            if dps:
                out.append("data attached to the virtual root")
            continue
        if name != outl and name not in ni:
            if dps:
                out.append(f"_data holds data for unknown clone {name!r}")
            continue
        idxs = [dp.idx for dp in dps]
        if len(set(idxs)) != len(idxs):
            out.append(f"duplicate data in {name!r}: {idxs}")
        for i in idxs:
            if i in seen:
                out.append(f"data point {i} in both {seen[i]!r} and {name!r}")
            seen[i] = name
        if name != outl:
            pay = g[ni[name]].data_points
            if set(pay) != set(idxs):
                out.append(f"clone {name!r}: payload data_points {sorted(pay)} != _data {sorted(idxs)}")
    for idx in g.node_indices():
        nm = g[idx].node_id
        if nm != root_name and g[idx].data_points and nm not in tree._data:
            out.append(f"payload of {nm!r} holds data missing from _data")
    if expected_idxs is not None and set(seen) != set(expected_idxs):
        out.append(f"data points {sorted(seen)} != expected {sorted(expected_idxs)}")
    # public views agree
    lab = tree.labels
    if lab != seen:
        out.append("labels disagree with _data")
    if sorted(dp.idx for dp in tree.data) != sorted(seen):
        out.append("tree.data disagrees with _data")
    if set(tree.nodes) != set(n for n in names if n != root_name):
        out.append("tree.nodes disagrees with payload names")
    for nm in tree.nodes:
        p = tree.get_parent(nm)
        if p != root_name and p not in tree.nodes:
            out.append(f"parent of {nm!r} is unknown {p!r}")
    return out
