"""Construction helpers shared by the checks (symbolic and float twins of the same inputs)."""
import math
from fractions import Fraction

import numpy as _np

from .vq import V
from .scalars import Log, Lin


def var_name(idx, d, g):
    return f"x{idx}_{d}_{g}"


def sym_dp(idx, D, G, outlier=None, name=None, fixed=None):
    """DataPoint whose likelihood grid is D x G fresh positive reals (stored as their logarithms).
    outlier = None (no outlier modelling) or (p_out V, p_in V) with p_out + p_in = 1 assumed by the caller."""
    from phyclone.data.base import DataPoint
    a = _np.empty((D, G), dtype=object)
    for d in range(D):
        for g in range(G):
            nm = var_name(idx, d, g)
            a[d, g] = Log(V(Fraction(fixed[nm]))) if fixed and nm in fixed else Log(V.var(nm))
    if outlier is None:
        return DataPoint(idx, a, name=name)
    po, pi = outlier
    return DataPoint(idx, a, name=name, outlier_prob=Log(po), outlier_prob_not=Log(pi))


def float_dp(idx, D, G, values, outlier_p=None, name=None):
    """The concrete twin: values maps var_name -> number (missing -> 1)."""
    from phyclone.data.base import DataPoint
    a = _np.zeros((D, G))
    for d in range(D):
        for g in range(G):
            a[d, g] = math.log(float(Fraction(values.get(var_name(idx, d, g), 1))))
    if outlier_p is None:
        return DataPoint(idx, a, name=name)
    p = float(Fraction(outlier_p))
    return DataPoint(idx, a, name=name, outlier_prob=math.log(p), outlier_prob_not=math.log1p(-p))


def sym_prior(alpha_name="alpha"):
    from phyclone.tree import FSCRPDistribution, TreeJointDistribution
    alpha = Lin(V.var(alpha_name))
    return TreeJointDistribution(FSCRPDistribution(alpha)), alpha


def model_values(model, box_default=1):
    """name -> 'p/q' for every input variable (internal '__' variables skipped)."""
    from .vq import REG, _z3_to_fraction
    out = {}
    for name, (v, pos) in REG.variables.items():
        if name.startswith("__"):
            continue
        val = model.eval(v, model_completion=False)
        try:
            f = _z3_to_fraction(val)
        except Exception:
            f = Fraction(box_default)
        out[name] = str(f)
    return out


def frac(x):
    return Fraction(x)
