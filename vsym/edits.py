"""Edit histories in the grammar the samplers compose, with an independent abstract model of what each edit
should produce.  Clones are identified by their data sets; the abstract state is a shapes.Forest plus the spare
(not yet placed) data points.  Every tree created along a history stays "live" with its expected forest, so
aliasing between trees (shared payloads) is visible at the end of the history."""
import itertools

from .shapes import Forest


def _names(tree):
    return {frozenset(dp.idx for dp in tree.get_data(nm)): nm for nm in tree.nodes}


def _with(forest, blocks=None, parent=None, outliers=None):
    return Forest(forest.blocks if blocks is None else blocks, forest.parent if parent is None else parent,
                  forest.outliers if outliers is None else outliers)


def enumerate_ops(forest, spares):
    """All abstract edits applicable to `forest` (list of tuples, first element = op name)."""
    ops = []
    K = len(forest.blocks)
    roots = forest.roots()
    if spares:
        x = spares[0]
        for r in roots:
            ops.append(("add_new_to_root", x, r))
        for k in range(len(roots) + 1):
            for sub in itertools.combinations(roots, k):
                ops.append(("new_root", x, sub))
        ops.append(("new_outlier", x))
    for i, b in enumerate(forest.blocks):
        if len(b) > 1:
            for x in b:
                for j in range(K):
                    if j != i:
                        ops.append(("move", x, i, j))
                ops.append(("move", x, i, "out"))
    for x in forest.outliers:
        for j in range(K):
            ops.append(("move", x, "out", j))
    if K > 1:
        for i in range(K):
            sub = set(forest.subtree(i))
            rest = [j for j in range(K) if j not in sub]
            if not rest:
                continue
            for p in rest + [None]:
                ops.append(("prune_regraft", i, p))
    for i in list(range(K)) + [None]:
        ops.append(("subtree_roundtrip", i))
    ops.append(("relabel",))
    ops.append(("copy",))
    ops.append(("dict_roundtrip",))
    return ops


def apply_op(op, tree, forest, spares, dps, live):
    """Apply `op` to the real tree and to the abstract forest.  Returns (tree, forest, spares).  Trees that remain
    reachable by the caller (originals of copies, sibling candidates) are appended to `live` with their forests."""
    from phyclone.tree import Tree
    name = op[0]
    nm = _names(tree)
    blocks = [list(b) for b in forest.blocks]
    if name == "add_new_to_root":
        _, x, r = op
        tree.add_data_point_to_node(dps[x], nm[frozenset(forest.blocks[r])])
        blocks[r].append(x)
        return tree, _with(forest, blocks=blocks), spares[1:]
    if name == "new_root":
        _, x, sub = op
        tree.create_root_node(children=[nm[frozenset(forest.blocks[i])] for i in sub], data=[dps[x]])
        K = len(blocks)
        par = [K if i in sub else p for i, p in enumerate(forest.parent)] + [None]
        return tree, Forest(blocks + [[x]], par, forest.outliers), spares[1:]
    if name == "new_outlier":
        _, x = op
        tree.add_data_point_to_outliers(dps[x])
        return tree, _with(forest, outliers=list(forest.outliers) + [x]), spares[1:]
    if name == "move":
        _, x, src, dst = op
        live.append((tree, forest))           # the data-point sampler keeps the original and edits a copy
        new = tree.copy()
        outl = list(forest.outliers)
        if src == "out":
            new.remove_data_point_from_node(dps[x], new.outlier_node_name)
            outl.remove(x)
        else:
            new.remove_data_point_from_node(dps[x], nm[frozenset(forest.blocks[src])])
            blocks[src].remove(x)
        if dst == "out":
            new.add_data_point_to_outliers(dps[x])
            outl.append(x)
        else:
            new.add_data_point_to_node(dps[x], nm[frozenset(forest.blocks[dst])])
            blocks[dst].append(x)
        return new, Forest(blocks, forest.parent, outl), spares
    if name == "prune_regraft":
        _, i, p = op
        live.append((tree, forest))
        pruned = tree.copy()
        subtree = pruned.get_subtree(nm[frozenset(forest.blocks[i])])
        pruned.remove_subtree(subtree)
        sub = set(forest.subtree(i))
        rest = [j for j in range(len(blocks)) if j not in sub]
        chosen = None
        # as PruneRegraphSampler._create_sampled_trees_array: every candidate is built from the same subtree object
        for cand in rest + [None]:
            nt = pruned.copy()
            parent = None if cand is None else _names(nt)[frozenset(forest.blocks[cand])]
            nt.add_subtree(subtree, parent=parent)
            nt.update()
            par = list(forest.parent)
            par[i] = cand
            f2 = Forest(forest.blocks, par, forest.outliers)
            if cand == p:
                chosen = (nt, f2)
            else:
                live.append((nt, f2))
        return chosen[0], chosen[1], spares
    if name == "subtree_roundtrip":
        _, i = op
        # as ParticleGibbsSubtreeSampler.sample_tree/_correct_weights with the regenerated subtree equal to the old one
        u = tree.root_node_name if i is None else nm[frozenset(forest.blocks[i])]
        parent = tree.get_parent(u)
        subtree = tree.get_subtree(u)
        tree.remove_subtree(subtree)
        for dp in tree.outliers:
            tree.remove_data_point_from_outliers(dp)
            subtree.add_data_point_to_outliers(dp)
        # the regenerated subtree comes out of an SMC pass: a tree built from scratch (clone names restart at 0 and may
        # clash with the remainder's) that went through the particles' dictionary form
        sub = list(range(len(forest.blocks))) if i is None else forest.subtree(i)
        sidx = {j: k for k, j in enumerate(sub)}
        f_sub = Forest([forest.blocks[j] for j in sub], [sidx.get(forest.parent[j]) if forest.parent[j] in sidx else None for j in sub])
        rebuilt = f_sub.to_tree(dps, tree.grid_size)
        for dp in subtree.outliers:
            rebuilt.add_data_point_to_outliers(dp)
        restored = Tree.from_dict(rebuilt.to_dict())
        new_tree = tree.copy()
        new_tree.add_subtree(restored, parent=parent)
        for dp in restored.outliers:
            new_tree.add_data_point_to_outliers(dp)
        new_tree.update()
        return new_tree, forest, spares
    if name == "relabel":
        tree.relabel_nodes()
        return tree, forest, spares
    if name == "copy":
        live.append((tree, forest))
        return tree.copy(), forest, spares
    if name == "dict_roundtrip":
        live.append((tree, forest))
        return Tree.from_dict(tree.to_dict()), forest, spares
    raise ValueError(name)


def describe(op, forest):
    def blk(i):
        return "out" if isinstance(i, str) else ("root" if i is None else "{" + ",".join(map(str, forest.blocks[i])) + "}")
    n = op[0]
    if n == "add_new_to_root":
        return f"add {op[1]} to {blk(op[2])}"
    if n == "new_root":
        return f"new clone {{{op[1]}}} above [{' '.join(blk(i) for i in op[2])}]"
    if n == "new_outlier":
        return f"add {op[1]} to outliers"
    if n == "move":
        return f"move {op[1]} {blk(op[2])}->{blk(op[3])}"
    if n == "prune_regraft":
        return f"prune {blk(op[1])} regraft under {blk(op[2])}"
    if n == "subtree_roundtrip":
        return f"subtree round trip at {blk(op[1])}"
    return n
