"""python -m vsym.cvc5ask < query.smt2  ->  prints sat / unsat / unknown (cvc5 1.4 wheel, 8 s limit).
Run as a separate process so that a solver that ignores its limit can simply be killed."""
import sys


def main():
    import cvc5
    txt = sys.stdin.read()
    tm = cvc5.TermManager()
    sv = cvc5.Solver(tm)
    sv.setOption("tlimit-per", "8000")
    ps = cvc5.InputParser(sv)
    ps.setStringInput(cvc5.InputLanguage.SMT_LIB_2_6, txt, "q")
    sm = ps.getSymbolManager()
    out = "unknown"
    while True:
        c = ps.nextCommand()
        if c.isNull():
            break
        res = str(c.invoke(sv, sm)).strip()
        if res in ("sat", "unsat", "unknown"):
            out = res
    print(out)


if __name__ == "__main__":
    main()
