"""Sum-of-monomials normal form of the polynomial z3 terms built by vsym.vq (encoding aid for identity
queries: distribution of products over sums only - no gcd, no factoring, no division)."""
from fractions import Fraction

import z3


class Poly:
    __slots__ = ("t",)

    def __init__(self, t=None):
        self.t = t or {}

    @staticmethod
    def const(c):
        c = Fraction(c)
        return Poly({(): c} if c else {})

    @staticmethod
    def var(name):
        return Poly({((name, 1),): Fraction(1)})

    def __add__(self, o):
        a, b = (self.t, o.t) if len(self.t) >= len(o.t) else (o.t, self.t)
        r = dict(a)
        for m, c in b.items():
            v = r.get(m)
            if v is None:
                r[m] = c
            else:
                v = v + c
                if v:
                    r[m] = v
                else:
                    del r[m]
        return Poly(r)

    def __neg__(self):
        return Poly({m: -c for m, c in self.t.items()})

    def __sub__(self, o):
        return self + (-o)

    def __mul__(self, o):
        if not self.t or not o.t:
            return Poly()
        a, b = (self.t, o.t) if len(self.t) <= len(o.t) else (o.t, self.t)
        r = {}
        for m1, c1 in a.items():
            d1 = dict(m1)
            for m2, c2 in b.items():
                if not m1:
                    m = m2
                elif not m2:
                    m = m1
                else:
                    d = dict(d1)
                    for v, e in m2:
                        d[v] = d.get(v, 0) + e
                    m = tuple(sorted(d.items()))
                c = c1 * c2
                v = r.get(m)
                if v is None:
                    r[m] = c
                else:
                    v = v + c
                    if v:
                        r[m] = v
                    else:
                        del r[m]
        return Poly(r)

    def is_zero(self):
        return not self.t

    def __len__(self):
        return len(self.t)

    def to_z3(self, consts):
        terms = []
        for m, c in sorted(self.t.items()):
            t = None
            for v, e in m:
                x = consts[v]
                for _ in range(e):
                    t = x if t is None else t * x
            cz = z3.RealVal(str(c))
            terms.append(cz if t is None else (t if c == 1 else cz * t))
        if not terms:
            return z3.RealVal(0)
        return z3.Sum(terms) if len(terms) > 1 else terms[0]

    def eval(self, env):
        tot = Fraction(0)
        for m, c in self.t.items():
            x = c
            for v, e in m:
                x = x * env[v] ** e
            tot += x
        return tot


_CACHE = {}
MAX_TERMS = 400000


class TooLarge(Exception):
    pass


def expand(term, consts, keep=None):
    """z3 arithmetic term (+, *, -, rational constants, uninterpreted constants) -> Poly.  `consts` collects name -> z3 const."""
    stack = [(term, False)]
    keep = _CACHE if keep is None else keep
    while stack:
        t, done = stack.pop()
        i = t.get_id()
        if i in keep:
            continue
        if z3.is_rational_value(t):
            keep[i] = (t, Poly.const(Fraction(t.numerator_as_long(), t.denominator_as_long())))
            continue
        if z3.is_const(t) and t.decl().kind() == z3.Z3_OP_UNINTERPRETED:
            nm = t.decl().name()
            consts[nm] = t
            keep[i] = (t, Poly.var(nm))
            continue
        ch = t.children()
        if not done:
            stack.append((t, True))
            for c in ch:
                if c.get_id() not in keep:
                    stack.append((c, False))
            continue
        k = t.decl().kind()
        ps = [keep[c.get_id()][1] for c in ch]
        if k == z3.Z3_OP_ADD:
            r = ps[0]
            for p in ps[1:]:
                r = r + p
        elif k == z3.Z3_OP_MUL:
            r = ps[0]
            for p in ps[1:]:
                r = r * p
                if len(r) > MAX_TERMS:
                    raise TooLarge(len(r))
        elif k == z3.Z3_OP_SUB:
            r = ps[0]
            for p in ps[1:]:
                r = r - p
        elif k == z3.Z3_OP_UMINUS:
            r = -ps[0]
        elif k == z3.Z3_OP_TO_REAL:
            r = ps[0]
        else:
            raise TooLarge(f"unsupported operator {t.decl().name()}")
        keep[i] = (t, r)
    return keep[term.get_id()][1]


def reset():
    _CACHE.clear()
