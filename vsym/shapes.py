"""Forest enumerators, written independently of phyclone's samplers.

A forest over data indices 0..n-1 is (blocks, parent, outliers): `blocks[i]` the data of clone i,
`parent[i]` the index of its parent clone or None for a top-level clone, `outliers` the data in
the outlier set.  all_forests(n) = set partitions x labelled rooted forests x outlier subsets.
"""
import itertools
from fractions import Fraction


class Forest:
    __slots__ = ("blocks", "parent", "outliers", "n")

    def __init__(self, blocks, parent, outliers=(), n=None):
        self.blocks = tuple(tuple(sorted(b)) for b in blocks)
        self.parent = tuple(parent)
        self.outliers = tuple(sorted(outliers))
        self.n = n if n is not None else sum(len(b) for b in self.blocks) + len(self.outliers)

    def children(self, i):
        return [j for j, p in enumerate(self.parent) if p == i]

    def roots(self):
        return [j for j, p in enumerate(self.parent) if p is None]

    def subtree(self, i):
        out = [i]
        for c in self.children(i):
            out.extend(self.subtree(c))
        return out

    def clade(self, i):
        s = set()
        for j in self.subtree(i):
            s.update(self.blocks[j])
        return frozenset(s)

    def clades(self):
        return frozenset(self.clade(i) for i in range(len(self.blocks)))

    def key(self):
        return (self.clades(), frozenset(self.outliers))

    def depth_order(self):
        """clone indices, children before parents"""
        order = []

        def rec(i):
            for c in self.children(i):
                rec(c)
            order.append(i)
        for r in self.roots():
            rec(r)
        return order

    def data(self):
        return sorted([x for b in self.blocks for x in b] + list(self.outliers))

    def describe(self):
        def rec(i):
            ch = self.children(i)
            s = "{" + ",".join(map(str, self.blocks[i])) + "}"
            if ch:
                s += "(" + " ".join(rec(c) for c in ch) + ")"
            return s
        s = " ".join(rec(r) for r in self.roots()) or "-"
        if self.outliers:
            s += " | out{" + ",".join(map(str, self.outliers)) + "}"
        return s

    def __repr__(self):
        return f"Forest[{self.describe()}]"

    # -- building phyclone trees ------------------------------------------------
    def to_tree(self, dps, grid_size, order=None, Tree=None):
        """Build with create_root_node, children before parents (`order` = a permutation of clone indices
        compatible with that, default depth-first)."""
        if Tree is None:
            from phyclone.tree import Tree
        t = Tree(grid_size)
        names = {}
        for i in (order or self.depth_order()):
            names[i] = t.create_root_node(children=[names[c] for c in self.children(i)], data=[dps[x] for x in self.blocks[i]])
        for x in self.outliers:
            t.add_data_point_to_outliers(dps[x])
        return t

    def linear_extensions(self):
        """All data orders in which every clone's data come after all data of its descendants
        (outliers anywhere) - brute force."""
        items = self.data()
        pos_constraints = []
        for i in range(len(self.blocks)):
            below = set()
            for j in self.subtree(i):
                if j != i:
                    below.update(self.blocks[j])
            for a in below:
                for b in self.blocks[i]:
                    pos_constraints.append((a, b))
        res = []
        for p in itertools.permutations(items):
            pos = {x: k for k, x in enumerate(p)}
            if all(pos[a] < pos[b] for a, b in pos_constraints):
                res.append(p)
        return res


def set_partitions(items):
    items = list(items)
    if not items:
        yield []
        return
    first, rest = items[0], items[1:]
    for part in set_partitions(rest):
        for i in range(len(part)):
            yield part[:i] + [[first] + part[i]] + part[i + 1:]
        yield [[first]] + part


def rooted_forests(k):
    """All parent vectors on k labelled nodes that are acyclic."""
    for par in itertools.product([None] + list(range(k)), repeat=k):
        ok = True
        for i in range(k):
            seen = set()
            j = i
            while j is not None:
                if j in seen:
                    ok = False
                    break
                seen.add(j)
                j = par[j]
            if not ok:
                break
        if ok:
            yield par


def all_forests(n, outliers=False, max_clones=None, items=None):
    items = list(range(n)) if items is None else list(items)
    res = []
    subsets = [()]
    if outliers:
        subsets = [c for r in range(len(items) + 1) for c in itertools.combinations(items, r)]
    for out in subsets:
        rest = [x for x in items if x not in out]
        for part in set_partitions(rest):
            part = sorted(sorted(b) for b in part)
            if max_clones is not None and len(part) > max_clones:
                continue
            for par in rooted_forests(len(part)):
                res.append(Forest(part, par, out, n=len(items)))
    return res


def forest_of_tree(tree):
    """Read a phyclone Tree back into a Forest (uses only labels / get_parent)."""
    nodes = [x for x in tree.nodes]
    idx = {nm: i for i, nm in enumerate(nodes)}
    blocks = [[dp.idx for dp in tree.get_data(nm)] for nm in nodes]
    parent = []
    for nm in nodes:
        p = tree.get_parent(nm)
        parent.append(None if p == tree.root_node_name else idx[p])
    return Forest(blocks, parent, [dp.idx for dp in tree.outliers])


def tree_key(tree):
    return (tree.get_clades(), frozenset(dp.idx for dp in tree.outliers))


def shapes_by_clone_count(kmax):
    """Unlabelled-ish forest shapes: one data point per clone, all parent vectors on k nodes up to kmax,
    deduplicated up to relabelling of clones."""
    res = []
    seen = set()
    for k in range(1, kmax + 1):
        for par in rooted_forests(k):
            f = Forest([[i] for i in range(k)], par)
            c = _canon(f)
            if c in seen:
                continue
            seen.add(c)
            res.append(f)
    return res


def _canon(f):
    def rec(i):
        return "(" + "".join(sorted(rec(c) for c in f.children(i))) + ")"
    return "".join(sorted(rec(r) for r in f.roots()))
