"""Job runner shared by all checks: process pool, reachability twins, canaries, counterexample
replay on the unpatched code, known findings, evidence, exit codes."""
import argparse
import importlib
import json
import multiprocessing as mp
import os
import random
import subprocess
import sys
import time
import traceback

ROOT = os.path.dirname(os.path.dirname(os.path.abspath(__file__)))
EXIT_OK, EXIT_VIOLATION, EXIT_INCONCLUSIVE = 0, 1, 2


def _init_worker():
    sys.path.insert(0, ROOT)
    os.environ.setdefault("NUMBA_DISABLE_JIT", "0")
    from vsym import patcher
    patcher.apply()


def _work(args):
    modname, job = args
    t0 = time.time()
    try:
        mod = importlib.import_module(modname)
        from vsym.ctx import CTX
        from vsym import patcher
        CTX.__init__()
        CTX.deadline = time.time() + float(job.get("budget_s") or os.environ.get("VERIF_JOB_BUDGET_S") or 1500)
        patcher.reset_caches()
        undo = None
        if job.get("canary"):
            undo = mod.apply_canary(job["canary"])
        try:
            res = mod.work(job)
        finally:
            if undo:
                undo()
        res.setdefault("status", "ok")
    except BaseException as e:  # noqa - report everything, including engine signals that escaped
        res = {"status": "error", "note": f"{type(e).__name__}: {e}", "trace": traceback.format_exc()[-3000:]}
    from vsym.ctx import CTX
    res["job"] = job
    res["stats"] = dict(CTX.stats)
    res["wall_s"] = round(time.time() - t0, 3)
    return res


def _worker_loop(modname, tasks, results):
    _init_worker()
    while True:
        item = tasks.get()
        if item is None:
            return
        idx, job = item
        results.put(("start", idx, os.getpid(), None))
        res = _work((modname, job))
        results.put(("done", idx, os.getpid(), res))


def run_jobs(modname, jobs, nproc):
    """Own process pool: a job that overruns its wall-clock budget (z3 can sit in a loop that honours neither its timeout
    nor an interrupt) is killed together with its worker, reported as inconclusive, and the worker is replaced."""
    if not jobs:
        return []
    nproc = max(1, min(nproc, len(jobs)))
    ctx = mp.get_context("spawn")
    tasks, results = ctx.Queue(), ctx.Queue()
    for i, j in enumerate(jobs):
        tasks.put((i, j))
    workers = {}

    def spawn():
        p = ctx.Process(target=_worker_loop, args=(modname, tasks, results), daemon=True)
        p.start()
        workers[p.pid] = p
    for _ in range(nproc):
        spawn()
    out = {}
    running = {}        # pid -> (idx, start time)
    hard = float(os.environ.get("VERIF_JOB_HARD_S") or 0)
    while len(out) < len(jobs):
        try:
            kind, idx, pid, res = results.get(timeout=2)
            if kind == "start":
                running[pid] = (idx, time.time())
            else:
                running.pop(pid, None)
                out[idx] = res
                if os.environ.get("VERIF_VERBOSE"):
                    print("  job", json.dumps(res.get("job"))[:150], res.get("status"), res.get("wall_s"), res.get("note", ""), flush=True)
        except Exception:  # queue.Empty
            pass
        now = time.time()
        for pid, (idx, t0) in list(running.items()):
            budget = hard or 1.6 * float(jobs[idx].get("budget_s") or os.environ.get("VERIF_JOB_BUDGET_S") or 1500) + 60
            if now - t0 > budget:
                p = workers.pop(pid, None)
                if p is not None:
                    p.kill()
                running.pop(pid, None)
                out[idx] = {"status": "inconclusive", "note": f"job killed after {int(now - t0)} s (solver did not return within its budget)",
                            "job": jobs[idx], "stats": {}, "wall_s": round(now - t0, 1)}
                if os.environ.get("VERIF_VERBOSE"):
                    print("  job", json.dumps(jobs[idx])[:150], "KILLED", flush=True)
                spawn()
        # a worker that died without reporting (segfault, OOM): fail its job
        for pid, p in list(workers.items()):
            if not p.is_alive() and pid in running:
                idx, t0 = running.pop(pid)
                out[idx] = {"status": "error", "note": f"worker died (exit code {p.exitcode})", "job": jobs[idx], "stats": {}, "wall_s": round(now - t0, 1)}
                workers.pop(pid)
                spawn()
    for _ in workers:
        tasks.put(None)
    for p in workers.values():
        p.join(timeout=5)
        if p.is_alive():
            p.kill()
    return [out[i] for i in range(len(jobs))]


def replay_case(modname, case, path):
    """Replay a counterexample in a fresh process on the unpatched code."""
    os.makedirs(os.path.dirname(path), exist_ok=True)
    with open(path, "w") as fh:
        json.dump({"module": modname, "case": case}, fh, indent=1, default=str)
    p = subprocess.run([sys.executable, "-m", "vsym.replay", path], cwd=ROOT, capture_output=True, text=True, timeout=3600)
    last = [l for l in p.stdout.strip().splitlines() if l.startswith("{")]
    if p.returncode != 0 or not last:
        return {"confirmed": False, "error": (p.stderr or p.stdout)[-2000:]}
    return json.loads(last[-1])


def load_known():
    p = os.path.join(ROOT, "known_findings.json")
    if not os.path.exists(p):
        return {"findings": [], "fixed": []}
    with open(p) as fh:
        return json.load(fh)


def main(modname):
    ap = argparse.ArgumentParser()
    ap.add_argument("--tier", default=os.environ.get("VERIF_TIER", "quick"), choices=["quick", "thorough"])
    ap.add_argument("--replay", default=None)
    ap.add_argument("--jobs", type=int, default=int(os.environ.get("VERIF_JOBS", "0")) or (os.cpu_count() or 4))
    ap.add_argument("--only", default=None, help="substring filter on job names (debugging)")
    args = ap.parse_args(sys.argv[2:])
    os.environ["VERIF_TIER_ACTIVE"] = args.tier          # workers are spawned afterwards and inherit it
    mod = importlib.import_module(modname)
    pid = mod.META["property_id"]
    seed = int(os.environ.get("VERIF_SEED", "0") or 0)

    if args.replay:
        with open(args.replay) as fh:
            d = json.load(fh)
        r = replay_case(d["module"], d["case"], os.path.join(ROOT, "replays", "_rerun.json"))
        print(json.dumps(r, indent=1))
        if r.get("confirmed"):
            print(f"VIOLATION property={pid} replay={args.replay}")
            return EXIT_VIOLATION
        return EXIT_OK

    t0 = time.time()
    jobs = mod.jobs(args.tier, seed)
    if args.only:
        jobs = [j for j in jobs if args.only in j["name"]]
    random.Random(seed).shuffle(jobs)
    # longest first helps the pool
    jobs.sort(key=lambda j: -j.get("cost", 1))
    results = run_jobs(modname, jobs, args.jobs)
    known = load_known()
    known_keys = {f["key"]: f for f in known.get("findings", []) if f.get("property") == pid}

    problems = []
    violations = []
    known_hits = []
    canaries = {}
    nrep = 0
    pending_cex = []
    for r in results:
        job = r["job"]
        name = job["name"]
        if job.get("canary"):
            ent = canaries.setdefault(job["canary"], {"jobs": 0, "detected": 0, "replayed": 0})
            ent["jobs"] += 1
            if r["status"] == "cex":
                ent["detected"] += 1
                case = r["cex"][0]
                case["canary"] = job["canary"]
                nrep += 1
                rr = replay_case(modname, case, os.path.join(ROOT, "replays", f"{pid}_canary_{job['canary']}_{nrep}.json"))
                if rr.get("confirmed"):
                    ent["replayed"] += 1
                else:
                    ent.setdefault("replay_notes", []).append(str(rr)[:300])
            elif r["status"] in ("error", "inconclusive"):
                ent.setdefault("notes", []).append(r.get("note", "")[:300])
                if "CanaryNotApplicable" in r.get("note", ""):
                    ent["not_applicable"] = True     # the anchored source line was rewritten: this mutant cannot be generated any more
            continue
        if r["status"] in ("error", "inconclusive"):
            problems.append(f"{name}: {r['status']}: {r.get('note', '')}\n{r.get('trace', '')}")
            continue
        if r.get("twin_ok") is False:
            problems.append(f"{name}: reachability twin failed (assumptions unsatisfiable or assertion not reached)")
        if r["status"] == "cex":
            for case in r["cex"]:
                pending_cex.append((name, case))

    # Replay candidates on the unpatched code: per finding key, until one reproduces (at most 4 attempts);
    # further candidates with an already confirmed key are counted, not replayed.
    by_key = {}
    for name, case in pending_cex:
        by_key.setdefault(case.get("finding_key"), []).append((name, case))
    unreplayed = 0
    for key, lst in by_key.items():
        confirmed = False
        notes = []
        for name, case in lst[:4]:
            nrep += 1
            path = os.path.join(ROOT, "replays", f"{pid}_{nrep}.json")
            rr = replay_case(modname, case, path)
            if rr.get("confirmed"):
                confirmed = True
                if key in known_keys:
                    known_hits.append((key, known_keys[key], rr))
                else:
                    violations.append((path, case, rr))
                break
            notes.append(f"{name}: {str(rr)[:400]}")
        if confirmed:
            unreplayed += len(lst) - 1
        else:
            problems.append(f"solver counterexample(s) for {key} did not reproduce on the unpatched code: " + " | ".join(notes))

    # canaries that were required to bite
    applicable = [c for c, ent in canaries.items() if not ent.get("not_applicable")]
    if canaries and not applicable:
        # not a failure of the property and not an inconclusive verdict: the pass itself rests on the solver's unsat answers and
        # the reachability twins; the self-test mutants just have to be re-anchored to the rewritten source
        print("note: none of this check's canary mutants could be generated from the current source (anchored lines rewritten); "
              "the self-test was skipped - re-anchor the CANARIES table")
    for cname, ent in canaries.items():
        if ent.get("not_applicable"):
            print(f"note: canary '{cname}' is not applicable to the current source (its anchored line was rewritten); skipped")
            continue
        if ent["detected"] == 0 or ent["replayed"] == 0:
            problems.append(f"canary '{cname}' not detected/replayed ({ent}): the check has lost its teeth or the encoder is wrong")

    wall = time.time() - t0
    ev = mod.evidence(args.tier, seed, results, canaries)
    ev.update({"property_id": pid, "tier": args.tier, "seed": seed, "wall_s": round(wall, 2),
               "violations": len(violations)})
    ev.setdefault("coverage", {})["known_findings_hit"] = sorted({k for k, _, _ in known_hits})
    _agg = aggregate(results)[0]
    ev["coverage"]["cross_solver"] = {"queries_re_asked_of_cvc5": _agg["cross_checked"], "agree": _agg["cross_agree"], "cvc5_unknown_or_timeout": _agg["cross_unknown"],
                                      "not_parsed": _agg["cross_error"], "note": "the first 3 (quick) / 20 (thorough) quickly decided queries of every job are re-asked of cvc5 1.4 (separate process, hard time limit); a definite disagreement ends the check with exit 2"}
    ev["coverage"]["inconclusive"] = len(problems)
    ev["coverage"]["counterexample_candidates"] = len(pending_cex)
    evdir = os.environ.get("VERIF_EVIDENCE_DIR") or os.path.join(ROOT, "evidence")
    os.makedirs(evdir, exist_ok=True)
    with open(os.path.join(evdir, f"{pid}.json"), "w") as fh:
        json.dump(ev, fh, indent=1, default=str)

    seen = set()
    for key, f, rr in known_hits:
        if key in seen:
            continue
        seen.add(key)
        print(f"KNOWN-FINDING: property={pid} {f['what']}")
    for path, case, rr in violations:
        print(f"VIOLATION property={pid} replay={path}")
        print("  ", json.dumps({k: case[k] for k in case if k not in ('model',)}, default=str)[:500])
        print("  ", str(rr.get("detail"))[:500])
    c = ev["coverage"]
    print(f"[{pid}] tier={args.tier} jobs={len(results)} obligations={c.get('obligations')} discharged={c.get('discharged')} "
          f"paths={c.get('paths')} queries={c.get('queries')} solver_s={c.get('solver_s')} wall_s={round(wall, 1)} "
          f"violations={len(violations)} problems={len(problems)}")
    if violations:
        return EXIT_VIOLATION
    if problems:
        for p in problems[:20]:
            print("INCONCLUSIVE:", p[:3000])
        return EXIT_INCONCLUSIVE
    return EXIT_OK


def aggregate(results):
    """Common evidence counters."""
    agg = {"queries": 0, "solver_s": 0.0, "sat": 0, "unsat": 0, "unknown": 0, "paths": 0, "forks": 0,
           "cross_checked": 0, "cross_agree": 0, "cross_unknown": 0, "cross_error": 0}
    for r in results:
        for k in agg:
            agg[k] += r.get("stats", {}).get(k, 0)
    agg["solver_s"] = round(agg["solver_s"], 2)
    funcs = set()
    for r in results:
        funcs.update(r.get("functions", []))
    obligations = sum(r.get("obligations", 0) for r in results if not r["job"].get("canary"))
    discharged = sum(r.get("discharged", 0) for r in results if not r["job"].get("canary"))
    return agg, sorted(funcs), obligations, discharged
