"""Job runner shared by all checks: process pool, reachability twins, canaries, counterexample
replay on the unpatched code, known findings, evidence, exit codes."""
import argparse
import importlib
import json
import multiprocessing as mp
import os
import random
import subprocess
import sys
import time
import traceback

ROOT = os.path.dirname(os.path.dirname(os.path.abspath(__file__)))
EXIT_OK, EXIT_VIOLATION, EXIT_INCONCLUSIVE = 0, 1, 2


def _init_worker():
    sys.path.insert(0, ROOT)
    os.environ.setdefault("NUMBA_DISABLE_JIT", "0")
    from vsym import patcher
    patcher.apply()


def _work(args):
    modname, job = args
    t0 = time.time()
    try:
        mod = importlib.import_module(modname)
        from vsym.ctx import CTX
        from vsym import patcher
        CTX.__init__()
        CTX.deadline = time.time() + float(job.get("budget_s") or os.environ.get("VERIF_JOB_BUDGET_S") or 1500)
        patcher.reset_caches()
        undo = None
        if job.get("canary"):
            undo = mod.apply_canary(job["canary"])
        try:
            res = mod.work(job)
        finally:
            if undo:
                undo()
        res.setdefault("status", "ok")
    except BaseException as e:  # noqa - report everything, including engine signals that escaped
        res = {"status": "error", "note": f"{type(e).__name__}: {e}", "trace": traceback.format_exc()[-3000:]}
    from vsym.ctx import CTX
    res["job"] = job
    res["stats"] = dict(CTX.stats)
    res["wall_s"] = round(time.time() - t0, 3)
    return res


def run_jobs(modname, jobs, nproc):
    if not jobs:
        return []
    nproc = max(1, min(nproc, len(jobs)))
    ctx = mp.get_context("spawn")
    with ctx.Pool(nproc, initializer=_init_worker, maxtasksperchild=None) as pool:
        out = []
        for r in pool.imap_unordered(_work, [(modname, j) for j in jobs], chunksize=1):
            out.append(r)
            if os.environ.get("VERIF_VERBOSE"):
                print("  job", json.dumps(r.get("job"))[:150], r.get("status"), r.get("wall_s"), r.get("note", ""), flush=True)
    return out


def replay_case(modname, case, path):
    """Replay a counterexample in a fresh process on the unpatched code."""
    os.makedirs(os.path.dirname(path), exist_ok=True)
    with open(path, "w") as fh:
        json.dump({"module": modname, "case": case}, fh, indent=1, default=str)
    p = subprocess.run([sys.executable, "-m", "vsym.replay", path], cwd=ROOT, capture_output=True, text=True, timeout=3600)
    last = [l for l in p.stdout.strip().splitlines() if l.startswith("{")]
    if p.returncode != 0 or not last:
        return {"confirmed": False, "error": (p.stderr or p.stdout)[-2000:]}
    return json.loads(last[-1])


def load_known():
    p = os.path.join(ROOT, "known_findings.json")
    if not os.path.exists(p):
        return {"findings": [], "fixed": []}
    with open(p) as fh:
        return json.load(fh)


def main(modname):
    ap = argparse.ArgumentParser()
    ap.add_argument("--tier", default=os.environ.get("VERIF_TIER", "quick"), choices=["quick", "thorough"])
    ap.add_argument("--replay", default=None)
    ap.add_argument("--jobs", type=int, default=int(os.environ.get("VERIF_JOBS", "0")) or (os.cpu_count() or 4))
    ap.add_argument("--only", default=None, help="substring filter on job names (debugging)")
    args = ap.parse_args(sys.argv[2:])
    mod = importlib.import_module(modname)
    pid = mod.META["property_id"]
    seed = int(os.environ.get("VERIF_SEED", "0") or 0)

    if args.replay:
        with open(args.replay) as fh:
            d = json.load(fh)
        r = replay_case(d["module"], d["case"], os.path.join(ROOT, "replays", "_rerun.json"))
        print(json.dumps(r, indent=1))
        if r.get("confirmed"):
            print(f"VIOLATION property={pid} replay={args.replay}")
            return EXIT_VIOLATION
        return EXIT_OK

    t0 = time.time()
    jobs = mod.jobs(args.tier, seed)
    if args.only:
        jobs = [j for j in jobs if args.only in j["name"]]
    random.Random(seed).shuffle(jobs)
    # longest first helps the pool
    jobs.sort(key=lambda j: -j.get("cost", 1))
    results = run_jobs(modname, jobs, args.jobs)
    known = load_known()
    known_keys = {f["key"]: f for f in known.get("findings", []) if f.get("property") == pid}

    problems = []
    violations = []
    known_hits = []
    canaries = {}
    nrep = 0
    pending_cex = []
    for r in results:
        job = r["job"]
        name = job["name"]
        if job.get("canary"):
            ent = canaries.setdefault(job["canary"], {"jobs": 0, "detected": 0, "replayed": 0})
            ent["jobs"] += 1
            if r["status"] == "cex":
                ent["detected"] += 1
                case = r["cex"][0]
                case["canary"] = job["canary"]
                nrep += 1
                rr = replay_case(modname, case, os.path.join(ROOT, "replays", f"{pid}_canary_{job['canary']}_{nrep}.json"))
                if rr.get("confirmed"):
                    ent["replayed"] += 1
                else:
                    ent.setdefault("replay_notes", []).append(str(rr)[:300])
            elif r["status"] in ("error", "inconclusive"):
                ent.setdefault("notes", []).append(r.get("note", "")[:300])
            continue
        if r["status"] in ("error", "inconclusive"):
            problems.append(f"{name}: {r['status']}: {r.get('note', '')}\n{r.get('trace', '')}")
            continue
        if r.get("twin_ok") is False:
            problems.append(f"{name}: reachability twin failed (assumptions unsatisfiable or assertion not reached)")
        if r["status"] == "cex":
            for case in r["cex"]:
                pending_cex.append((name, case))

    # Replay candidates on the unpatched code: per finding key, until one reproduces (at most 4 attempts);
    # further candidates with an already confirmed key are counted, not replayed.
    by_key = {}
    for name, case in pending_cex:
        by_key.setdefault(case.get("finding_key"), []).append((name, case))
    unreplayed = 0
    for key, lst in by_key.items():
        confirmed = False
        notes = []
        for name, case in lst[:4]:
            nrep += 1
            path = os.path.join(ROOT, "replays", f"{pid}_{nrep}.json")
            rr = replay_case(modname, case, path)
            if rr.get("confirmed"):
                confirmed = True
                if key in known_keys:
                    known_hits.append((key, known_keys[key], rr))
                else:
                    violations.append((path, case, rr))
                break
            notes.append(f"{name}: {str(rr)[:400]}")
        if confirmed:
            unreplayed += len(lst) - 1
        else:
            problems.append(f"solver counterexample(s) for {key} did not reproduce on the unpatched code: " + " | ".join(notes))

    # canaries that were required to bite
    for cname, ent in canaries.items():
        if ent["detected"] == 0 or ent["replayed"] == 0:
            problems.append(f"canary '{cname}' not detected/replayed ({ent}): the check has lost its teeth or the encoder is wrong")

    wall = time.time() - t0
    ev = mod.evidence(args.tier, seed, results, canaries)
    ev.update({"property_id": pid, "tier": args.tier, "seed": seed, "wall_s": round(wall, 2),
               "violations": len(violations)})
    ev.setdefault("coverage", {})["known_findings_hit"] = sorted({k for k, _, _ in known_hits})
    ev["coverage"]["inconclusive"] = len(problems)
    ev["coverage"]["counterexample_candidates"] = len(pending_cex)
    evdir = os.environ.get("VERIF_EVIDENCE_DIR") or os.path.join(ROOT, "evidence")
    os.makedirs(evdir, exist_ok=True)
    with open(os.path.join(evdir, f"{pid}.json"), "w") as fh:
        json.dump(ev, fh, indent=1, default=str)

    seen = set()
    for key, f, rr in known_hits:
        if key in seen:
            continue
        seen.add(key)
        print(f"KNOWN-FINDING: property={pid} {f['what']}")
    for path, case, rr in violations:
        print(f"VIOLATION property={pid} replay={path}")
        print("  ", json.dumps({k: case[k] for k in case if k not in ('model',)}, default=str)[:500])
        print("  ", str(rr.get("detail"))[:500])
    c = ev["coverage"]
    print(f"[{pid}] tier={args.tier} jobs={len(results)} obligations={c.get('obligations')} discharged={c.get('discharged')} "
          f"paths={c.get('paths')} queries={c.get('queries')} solver_s={c.get('solver_s')} wall_s={round(wall, 1)} "
          f"violations={len(violations)} problems={len(problems)}")
    if violations:
        return EXIT_VIOLATION
    if problems:
        for p in problems[:20]:
            print("INCONCLUSIVE:", p[:3000])
        return EXIT_INCONCLUSIVE
    return EXIT_OK


def aggregate(results):
    """Common evidence counters."""
    agg = {"queries": 0, "solver_s": 0.0, "sat": 0, "unsat": 0, "unknown": 0, "paths": 0, "forks": 0}
    for r in results:
        for k in agg:
            agg[k] += r.get("stats", {}).get(k, 0)
    agg["solver_s"] = round(agg["solver_s"], 2)
    funcs = set()
    for r in results:
        funcs.update(r.get("functions", []))
    obligations = sum(r.get("obligations", 0) for r in results if not r["job"].get("canary"))
    discharged = sum(r.get("discharged", 0) for r in results if not r["job"].get("canary"))
    return agg, sorted(funcs), obligations, discharged
