"""C02 oracle, written from the property statement: entry k of a forest's root likelihood is the sum
over all assignments of grid indices to clones (index(clone) >= sum of its children's indices, top-level
indices summing to <= k) of the product of every clone's prior-weighted data likelihood; the virtual
root contributes its prior only."""
import itertools


def feasible_assignments(forest, G, k):
    K = len(forest.blocks)
    ch = [forest.children(i) for i in range(K)]
    roots = forest.roots()
    for assign in itertools.product(range(G), repeat=K):
        if any(assign[i] < sum(assign[c] for c in ch[i]) for i in range(K)):
            continue
        if sum(assign[r] for r in roots) > k:
            continue
        yield assign


def marginal_bruteforce(forest, node_p, G, k, prior, one):
    """node_p[i][g]: prior-weighted likelihood of clone i at grid index g (any ring element);
    prior: the virtual root's own factor; `one`: multiplicative unit of the ring."""
    total = None
    for assign in feasible_assignments(forest, G, k):
        term = one * prior
        for i, g in enumerate(assign):
            term = term * node_p[i][g]
        total = term if total is None else total + term
    return total
