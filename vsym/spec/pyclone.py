"""C05 oracle: the PyClone emission model, written from the model description (Roth et al. 2014, 'major copy number'
genotype prior) - mixture over mutational genotypes of a (beta-)binomial pmf of the alternate count given the depth,
expected allele fraction from normal / reference / variant population weights.  Generic over the number type."""
import math
from fractions import Fraction


def genotypes(major, minor, normal):
    """[(copy numbers of normal, reference, variant population, number of mutated copies in the variant population)]"""
    total = major + minor
    gs = [((normal, normal, total), x) for x in range(1, major + 1)]      # mutation before the copy-number change, on x copies
    after = (normal, total, total)                                         # mutation after the copy-number change, on one copy
    if after not in [g for g, _ in gs]:
        gs.append((after, 1))
    return gs


def expected_vaf(cn, x, t, f, eps, vmin, one):
    total = cn[2]
    mu = (eps, eps, vmin(one - eps, one * Fraction(x, total)))
    w = (one - t, t * (one - f), t * f)
    num = w[0] * cn[0] * mu[0] + w[1] * cn[1] * mu[1] + w[2] * cn[2] * mu[2]
    den = w[0] * cn[0] + w[1] * cn[1] + w[2] * cn[2]
    return num, den


def pmf_binomial(n, k, num, den, one):
    """C(n,k) p^k (1-p)^(n-k) with p = num/den, returned as (numerator, denominator)"""
    r = one * math.comb(n, k)
    for _ in range(k):
        r = r * num
    for _ in range(n - k):
        r = r * (den - num)
    d = one
    for _ in range(n):
        d = d * den
    return r, d


def pmf_beta_binomial(n, k, num, den, s, one):
    """C(n,k) prod_{j<k}(a+j) prod_{j<n-k}(b+j) / prod_{j<n}(a+b+j),  a = p s, b = (1-p) s, p = num/den.
    Multiplying every factor by den keeps the expression division-free: a+j = (num s + j den)/den etc."""
    r = one * math.comb(n, k)
    for j in range(k):
        r = r * (num * s + den * j)
    for j in range(n - k):
        r = r * ((den - num) * s + den * j)
    d = one
    for j in range(n):
        d = d * (den * s + den * j)
    return r, d
