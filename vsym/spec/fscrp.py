"""C03 oracle: the FS-CRP joint density written from the property statement (linear domain, i.e. exp of
the log-density), generic over the number type (V terms or floats).

marginal form  : alpha^K * prod (size-1)! * (K+1)^-(K-1) / prod_nodes(children!) * outlier prior * prod_d sum_k L_d[k] * prod_outliers m(o)
fixed-root form: alpha^K * prod (size-1)! * prod_top m^-(m-1) * w(r)          / prod_nodes(children!) * outlier prior * prod_d L_d[G-1]   * prod_outliers m(o)
with w(r) = 1000^-(r-1) / sum_{i=0}^{r-1} 1000^-i (r top-level clones; w = 1 for r = 0), children! taken over every clone and the
virtual root, L_d the grid marginal of C02 and m(o) the marginal likelihood of data point o alone in a single-clone tree.
"""
import math
from fractions import Fraction

from .marginal import marginal_bruteforce
from ..shapes import Forest


def _pow(x, k):
    if k == 0:
        return 1
    if hasattr(x, "pow"):
        return x.pow(k)
    return x ** k


def root_weight(r, const):
    if r == 0:
        return const(1)
    c = Fraction(1000)
    return const((c ** -(r - 1)) / sum(c ** -i for i in range(r)))


def data_marginals(forest, lik, G, D, const):
    """L[d][k] for the forest; lik[x][d][g] = likelihood of data point x (linear domain)."""
    prior = const(Fraction(1, G))
    one = const(1)
    L = []
    for d in range(D):
        node_p = []
        for b in forest.blocks:
            row = []
            for g in range(G):
                e = prior
                for x in b:
                    e = e * lik[x][d][g]
                row.append(e)
            node_p.append(row)
        L.append([marginal_bruteforce(forest, node_p, G, k, prior, one) for k in range(G)])
    return L


def outlier_marginal(x, lik, G, D, const):
    single = Forest([[x]], [None])
    L = data_marginals(single, lik, G, D, const)
    m = const(1)
    for d in range(D):
        s = L[d][0]
        for k in range(1, G):
            s = s + L[d][k]
        m = m * s
    return m


def fscrp_joint(forest, lik, G, D, alpha, const, outlier_p=None, sizes=None):
    """Returns (marginal form, fixed-root form) in the linear domain.
    outlier_p: None (no outlier modelling) or dict x -> (p_out, p_in) per data point (already raised to the
    cluster size by the caller if clusters are used); sizes: cluster size per data point (default 1) - the CRP
    term counts data points, not mutations."""
    K = len(forest.blocks)
    base = _pow(alpha, K) if K else const(1)
    for b in forest.blocks:
        base = base * const(math.factorial(len(b) - 1))
    mult = math.factorial(len(forest.roots()))
    for i in range(K):
        mult *= math.factorial(len(forest.children(i)))
    base = base * const(Fraction(1, mult))
    if outlier_p is not None:
        for x in forest.data():
            po, pi = outlier_p[x]
            base = base * (po if x in forest.outliers else pi)
    for x in forest.outliers:
        base = base * outlier_marginal(x, lik, G, D, const)
    marg = base * const(Fraction(1, (K + 1) ** (K - 1))) if K >= 1 else base
    fixed = base * root_weight(len(forest.roots()), const)
    for r in forest.roots():
        m = len(forest.subtree(r))
        fixed = fixed * const(Fraction(1, m ** (m - 1)))
    if K > 0:
        L = data_marginals(forest, lik, G, D, const)
        for d in range(D):
            s = L[d][0]
            for k in range(1, G):
                s = s + L[d][k]
            marg = marg * s
            fixed = fixed * L[d][G - 1]
    return marg, fixed
