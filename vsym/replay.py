"""Replay a counterexample file on the UNPATCHED code (real numpy / numba / scipy):
    python -m vsym.replay replays/<file>.json
Prints one JSON line {"confirmed": bool, "detail": ...}."""
import importlib
import json
import os
import sys

ROOT = os.path.dirname(os.path.dirname(os.path.abspath(__file__)))
sys.path.insert(0, ROOT)


def main():
    with open(sys.argv[1]) as fh:
        d = json.load(fh)
    mod = importlib.import_module(d["module"])
    case = d["case"]
    from vsym.ctx import CTX
    CTX.float_mode = True
    undo = None
    if case.get("canary"):
        undo = mod.apply_canary(case["canary"])
    try:
        confirmed, detail = mod.replay(case)
    finally:
        if undo:
            undo()
    print(json.dumps({"confirmed": bool(confirmed), "detail": detail}, default=str))


if __name__ == "__main__":
    main()
