"""numpy facade bound as `np` in every phyclone module of the checking process.

Concrete operands go straight to numpy.  For symbolic operands (object arrays of Log/Lin)
exactly the calls the code base makes are implemented; anything else falls through to numpy,
which works on object arrays by calling the scalars' own operators.
"""
import math
import types
from fractions import Fraction

import numpy as _np

from .vq import V, EncodingGap, vmax
from .scalars import Log, Lin, SymBool, mkbool, tolog, tolin, is_sym, is_sym_arr, any_sym, _NUM


def _obj_array(shape):
    return _np.empty(shape, dtype=object)


def _map(a, f):
    r = _obj_array(a.shape)
    for idx in _np.ndindex(a.shape):
        r[idx] = f(a[idx])
    return r


def _elog(x):
    if hasattr(x, "vsym_log"):
        return x.vsym_log()
    if isinstance(x, Lin):
        return x.log()
    if isinstance(x, Log):
        raise EncodingGap("log of a log-domain value")
    if isinstance(x, _NUM):
        if x < 0:
            raise EncodingGap("log of a negative constant")
        return Log(V(_frac(x)))
    raise EncodingGap(f"log of {type(x).__name__}")


def _frac(x):
    from .vq import to_fraction
    return to_fraction(x)


def _eexp(x):
    if isinstance(x, Log):
        return x.exp()
    if isinstance(x, _NUM):
        if x == 0:
            return Lin(V(1))
        if x == -math.inf:
            return Lin(V(0))
        from .scalars import const_log
        return Lin(const_log(float(x)))
    raise EncodingGap(f"exp of {type(x).__name__}")


class _LogAddExp:
    def __call__(self, a, b):
        if any_sym(a, b):
            return Log(tolog(a) + tolog(b))
        return _np.logaddexp(a, b)

    def accumulate(self, a, out=None, **kw):
        if not is_sym_arr(a):
            return _np.logaddexp.accumulate(a, out=out, **kw)
        if a.ndim != 1:
            raise EncodingGap("logaddexp.accumulate on a non-vector")
        res = _obj_array(len(a))
        t = tolog(a[0])
        res[0] = Log(t)
        for i in range(1, len(a)):
            t = t + tolog(a[i])
            res[i] = Log(t)
        if out is not None:
            out[...] = res
            return out
        return res


class NPFacade(types.ModuleType):
    SYMBOLIC = True

    def __init__(self):
        super().__init__("vsym_np")
        self.logaddexp = _LogAddExp()

    def __getattr__(self, name):
        return getattr(_np, name)

    # -- constructors: object dtype so that symbolic values can be stored ----------
    @staticmethod
    def _is_int_dtype(dtype):
        return dtype is int or dtype is bool or (dtype is not None and _np.issubdtype(_np.dtype(dtype), _np.integer)) \
            or (dtype is not None and _np.dtype(dtype) == _np.bool_)

    def full(self, shape, v, dtype=None, order="C"):
        if self._is_int_dtype(dtype):
            return _np.full(shape, v, dtype=dtype)
        a = _obj_array(shape)
        a.fill(v)
        return a

    def zeros(self, shape, dtype=None, order="C"):
        if self._is_int_dtype(dtype):
            return _np.zeros(shape, dtype=dtype)
        a = _obj_array(shape)
        a.fill(0.0)
        return a

    def ones(self, shape, dtype=None, order="C"):
        if self._is_int_dtype(dtype):
            return _np.ones(shape, dtype=dtype)
        a = _obj_array(shape)
        a.fill(1.0)
        return a

    def empty(self, shape, dtype=None, order="C"):
        if self._is_int_dtype(dtype):
            return _np.empty(shape, dtype=dtype)
        a = _obj_array(shape)
        a.fill(0.0)
        return a

    def empty_like(self, a, dtype=None):
        if is_sym_arr(a):
            r = _obj_array(a.shape)
            r.fill(0.0)
            return r
        return _np.empty_like(a, dtype=dtype)

    def linspace(self, start, stop, num, **kw):
        if kw:
            raise EncodingGap("linspace keyword arguments")
        a = _obj_array(num)
        for i in range(num):
            a[i] = Lin(V(Fraction(start) + (Fraction(stop) - Fraction(start)) * Fraction(i, num - 1))) if num > 1 else Lin(V(Fraction(start)))
        return a

    def array(self, a, dtype=None, order=None, copy=True):
        if self._is_int_dtype(dtype):
            return _np.array(a, dtype=dtype)
        if isinstance(a, _np.ndarray):
            return a.astype(object) if dtype is not None and a.dtype != object else a.copy()
        if is_sym(a) or isinstance(a, _NUM):
            r = _obj_array(())
            r[()] = a
            return r
        a = list(a)
        if len(a) == 0:
            return _obj_array((0,))
        if all(isinstance(x, _np.ndarray) and x.dtype != object for x in a):
            return _np.array(a, dtype=dtype)
        if all(isinstance(x, _np.ndarray) for x in a):
            shp = a[0].shape
            r = _obj_array((len(a),) + shp)
            for i, x in enumerate(a):
                if x.shape != shp:
                    raise EncodingGap("ragged array")
                r[i] = x
            return r
        if all(isinstance(x, (list, tuple)) for x in a):
            return self.array([self.array(x, dtype=dtype) for x in a])
        if any(isinstance(x, (list, tuple, _np.ndarray)) for x in a):
            raise EncodingGap("ragged array")
        if not any_sym(a) and all(isinstance(x, (int, _np.integer)) and not isinstance(x, bool) for x in a) and dtype is None:
            return _np.array(a)
        r = _obj_array(len(a))
        for i, x in enumerate(a):
            r[i] = x
        return r

    def asarray(self, a, dtype=None):
        if isinstance(a, _np.ndarray):
            return a
        return self.array(a, dtype=dtype)

    def ascontiguousarray(self, a, dtype=None):
        return self.array(a)

    def fromiter(self, it, dtype=None, count=-1):
        if self._is_int_dtype(dtype):
            return _np.fromiter(it, dtype=dtype, count=count)
        l = list(it)
        a = _obj_array(len(l))
        for i, x in enumerate(l):
            a[i] = x
        return a

    def resize(self, a, shape):
        return _np.resize(a, shape)

    # -- elementwise -------------------------------------------------------
    def log(self, x, out=None, order=None, dtype=None, **kw):
        if isinstance(x, _np.ndarray):
            r = _map(x, _elog)
            if out is not None:
                out[...] = r
                return out
            return r
        return _elog(x)

    def exp(self, x, out=None, **kw):
        if isinstance(x, _np.ndarray):
            r = _map(x, _eexp)
            if out is not None:
                out[...] = r
                return out
            return r
        return _eexp(x)

    def log1p(self, x):
        if isinstance(x, _np.ndarray):
            return _map(x, self.log1p)
        if isinstance(x, Lin):
            return x.log1p()
        if isinstance(x, _NUM):
            return Log(V(1 + _frac(x)))
        raise EncodingGap(f"log1p of {type(x).__name__}")

    def square(self, a):
        return a * a

    def add(self, a, b, out=None, order=None, **kw):
        r = a + b
        if out is not None:
            out[...] = r
            return out
        return r

    def copyto(self, dst, src, **kw):
        dst[...] = src

    def isinf(self, x):
        if isinstance(x, _np.ndarray):
            return _np.array([self.isinf(v) for v in x.flat], dtype=object).reshape(x.shape) if x.dtype == object else _np.isinf(x)
        if isinstance(x, Log):
            return False if x.pos else mkbool(x.e.eq(V(0)))
        if isinstance(x, Lin):
            return False
        return _np.isinf(x)

    def isneginf(self, x):
        if isinstance(x, Log):
            return False if x.pos else mkbool(x.e.eq(V(0)))
        if isinstance(x, Lin):
            return False
        if is_sym_arr(x):
            return _map(x, self.isneginf)
        return _np.isneginf(x)

    def isfinite(self, x):
        if isinstance(x, Log):
            return True if x.pos else mkbool(x.e.ne(V(0)))
        if isinstance(x, Lin):
            return True
        if is_sym_arr(x):
            r = _np.empty(x.shape, dtype=bool)
            for idx in _np.ndindex(x.shape):
                r[idx] = bool(self.isfinite(x[idx]))
            return r
        return _np.isfinite(x)

    def all(self, a, axis=None):
        if is_sym_arr(a):
            if axis is not None:
                raise EncodingGap("all(axis=)")
            res = True
            for v in a.flat:
                if not bool(v):
                    res = False
            return res
        return _np.all(a, axis=axis)

    # -- reductions ----------------------------------------------------------
    def max(self, a, axis=None, keepdims=False):
        if not is_sym_arr(a):
            return _np.max(a, axis=axis, keepdims=keepdims)

        def red(vals):
            vals = list(vals)
            if not any(is_sym(v) for v in vals):
                return max(float(v) for v in vals)
            if all(isinstance(v, Lin) or (isinstance(v, _NUM) and not any(isinstance(w, Log) for w in vals)) for v in vals):
                return Lin(vmax([tolin(v) for v in vals]))
            return Log(vmax([tolog(v) for v in vals]))

        if axis is None:
            r = red(a.flat)
            return r
        if axis not in (-1, a.ndim - 1):
            raise EncodingGap("max over a non-final axis")
        out = _obj_array(a.shape[:-1] + ((1,) if keepdims else ()))
        for idx in _np.ndindex(a.shape[:-1]):
            m = red(a[idx])
            if keepdims:
                out[idx + (0,)] = m
            else:
                out[idx] = m
        return out

    def sum(self, a, axis=None, **kw):
        if isinstance(a, _np.ndarray) and a.dtype == object:
            if a.size == 0:
                return 0.0
            return _np.add.reduce(a, axis=axis) if axis is not None else _fold(a.flat)
        if isinstance(a, (list, tuple)) and any_sym(a):
            return self.sum(self.array(a), axis=axis)
        return _np.sum(a, axis=axis, **kw)

    def convolve(self, a, b, mode="full"):
        if not (is_sym_arr(a) or is_sym_arr(b)):
            return _np.convolve(a, b, mode)
        if mode != "full":
            raise EncodingGap("convolve mode")
        n = len(a) + len(b) - 1
        r = _obj_array(n)
        for k in range(n):
            acc = None
            for j in range(len(a)):
                i = k - j
                if 0 <= i < len(b):
                    t = a[j] * b[i]
                    acc = t if acc is None else acc + t
            r[k] = acc
        return r

    def array_equal(self, a, b):
        if is_sym_arr(a) or is_sym_arr(b):
            if a.shape != b.shape:
                return False
            res = True
            for x, y in zip(a.flat, b.flat):
                if not bool(x == y):
                    res = False
            return res
        return _np.array_equal(a, b)


def _fold(it):
    acc = None
    for x in it:
        acc = x if acc is None else acc + x
    return acc


FACADE = NPFacade()
