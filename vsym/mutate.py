"""In-memory source-level mutants of /repo functions (canaries): the function's *current* source is
re-read, one textual replacement is made, and the result is compiled into the same module namespace."""
import inspect
import sys
import textwrap


class CanaryNotApplicable(Exception):
    pass


def _resolve(modname, qualname):
    mod = sys.modules.get(modname) or __import__(modname, fromlist=["x"])
    parts = qualname.split(".")
    owner = mod
    for p in parts[:-1]:
        owner = getattr(owner, p)
    return mod, owner, parts[-1]


def mutate(modname, qualname, old, new, count=1):
    mod, owner, name = _resolve(modname, qualname)
    raw = owner.__dict__[name] if isinstance(owner, type) else getattr(owner, name)
    kind = None
    fn = raw
    if isinstance(raw, staticmethod):
        kind, fn = staticmethod, raw.__func__
    elif isinstance(raw, classmethod):
        kind, fn = classmethod, raw.__func__
    fn = getattr(fn, "py_func", fn)
    src = textwrap.dedent(inspect.getsource(fn))
    # drop decorators (numba.jit etc.): the mutant is plain Python, like the un-jitted original
    lines = src.splitlines(True)
    while lines and lines[0].lstrip().startswith("@"):
        lines.pop(0)
    src = "".join(lines)
    if src.count(old) < 1:
        raise CanaryNotApplicable(f"pattern {old!r} not found in {modname}.{qualname}")
    src = src.replace(old, new, count)
    ns = {}
    exec(compile(src, f"<canary {modname}.{qualname}>", "exec"), fn.__globals__, ns)
    newfn = ns[fn.__name__]
    newfn.__qualname__ = getattr(fn, "__qualname__", fn.__name__)
    wrapped = kind(newfn) if kind else newfn
    replaced = []
    if isinstance(owner, type):
        setattr(owner, name, wrapped)
        replaced.append((owner, name, raw))
    else:
        for m in list(sys.modules.values()):
            if m is None or not getattr(m, "__name__", "").startswith("phyclone"):
                continue
            for k, v in list(vars(m).items()):
                if v is raw:
                    setattr(m, k, wrapped)
                    replaced.append((m, k, raw))

    def undo():
        for o, k, v in replaced:
            setattr(o, k, v)
    return undo


def chain(*undos):
    def undo():
        for u in reversed(undos):
            u()
    return undo
