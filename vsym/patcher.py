"""Rebind, inside the checking process only, the objects through which numbers flow in /repo's
phyclone package: `np` -> facade, numba dispatchers -> their own py_func, the handful of
C-level leaf functions -> trusted stubs (listed in STUBS, copied into every evidence file)."""
import importlib
import math
import pkgutil
import sys
import types
from fractions import Fraction

import numpy as _np

from .facade import FACADE
from .scalars import Log, Lin, tolog, tolin, is_sym_arr, any_sym, _NUM
from .vq import V, EncodingGap, REG

STUBS = [
    "numpy (as bound in phyclone modules) -> vsym.facade: object arrays of Log/Lin scalars, exact real arithmetic",
    "numba.jit / numba.vectorize dispatchers -> their own Python source (py_func)",
    "math.lgamma (phyclone.utils.math.log_gamma) -> exact (n-1)! at integers; Gamma(z+k)=z(z+1)..(z+k-1)Gamma(z) over an uninterpreted positive Gamma(z) at symbolic arguments",
    "scipy.special.logsumexp(axis=1) (phyclone.data.base.log_sum_exp) -> row sums",
    "scipy.signal.fftconvolve (phyclone.utils.math.fftconvolve) -> exact linear convolution along the last axis",
    "xxhash.xxh3_64_hexdigest (phyclone.utils.utils) -> injective structural digest of the symbolic array (no collisions assumed)",
    "concrete float constants are read as the nearest simple rational (0.1 -> 1/10)",
    "round(x, n) of a symbolic value -> rounding cell floor(x*10^n + 1/2), equality decided by the solver (ties-to-even at exact half-way points not modelled)",
]

_applied = False
MODULES = []
_LRU = []


def log_gamma_stub(x):
    if isinstance(x, _np.ndarray):
        r = _np.empty(x.shape, dtype=object)
        for idx in _np.ndindex(x.shape):
            r[idx] = log_gamma_stub(x[idx])
        return r
    if isinstance(x, Lin):
        return _sym_log_gamma(x)
    if isinstance(x, _NUM):
        f = Fraction(x).limit_denominator(10 ** 9)
        if f.denominator != 1 or f < 1:
            raise EncodingGap(f"lgamma at non-positive-integer constant {x!r}")
        return Log(V(math.factorial(int(f) - 1)))
    raise EncodingGap(f"lgamma of {type(x).__name__}")


_GAMMA = {}


def _sym_log_gamma(z):
    base, k = getattr(z, "shift", None) or (z, 0)
    if base.e.is_const():
        c = base.e.c + k
        if c.denominator == 1 and c >= 1:
            return Log(V(math.factorial(int(c) - 1)))
        raise EncodingGap("lgamma at a non-integer constant")
    key = (REG.generation, base.e.key())
    if key not in _GAMMA:
        _GAMMA[key] = V.var(f"__Gamma{len(_GAMMA)}", pos=True)
    g = _GAMMA[key]
    if k >= 0:
        for j in range(k):
            g = g * (base.e + j)
    else:
        for j in range(1, -k + 1):
            g = g / (base.e - j)
    return Log(g)


def logsumexp_stub(a, axis=None, **kw):
    if not is_sym_arr(a):
        from scipy.special import logsumexp
        return logsumexp(a, axis=axis, **kw)
    if axis != 1 or a.ndim != 2:
        raise EncodingGap("logsumexp stub supports axis=1 on a matrix")
    out = _np.empty(a.shape[0], dtype=object)
    for i in range(a.shape[0]):
        acc = None
        for x in a[i]:
            e = tolog(x)
            acc = e if acc is None else acc + e
        out[i] = Log(acc)
    return out


def fftconvolve_stub(a, b, axes=None, mode="full"):
    if not (is_sym_arr(a) or is_sym_arr(b)):
        from scipy.signal import fftconvolve
        return fftconvolve(a, b, axes=axes, mode=mode)
    if mode != "full" or list(axes) != [-1] or a.ndim != 2:
        raise EncodingGap("fftconvolve stub")
    n = a.shape[-1] + b.shape[-1] - 1
    out = _np.empty((a.shape[0], n), dtype=object)
    for d in range(a.shape[0]):
        out[d, :] = FACADE.convolve(a[d], b[d])
    return out


def digest_stub(arr):
    if isinstance(arr, _np.ndarray) and arr.dtype == object:
        parts = [str(arr.shape)]
        for x in arr.flat:
            if isinstance(x, (Log, Lin)):
                parts.append(type(x).__name__[1] + repr(x.e.key()))
            else:
                parts.append(repr(x))
        return "|".join(parts)
    from xxhash import xxh3_64_hexdigest
    return xxh3_64_hexdigest(arr)


def apply():
    """Import every phyclone module, then rebind.  Idempotent."""
    global _applied
    if _applied:
        return
    import phyclone
    for mi in pkgutil.walk_packages(phyclone.__path__, "phyclone."):
        if ".tests" in mi.name or mi.name.endswith(".cli") or mi.name.endswith("__main__"):
            continue
        importlib.import_module(mi.name)
    mods = [m for n, m in sorted(sys.modules.items()) if n.startswith("phyclone") and m is not None and ".tests" not in n]
    MODULES[:] = mods
    for m in mods:
        for k, v in list(vars(m).items()):
            if k == "np" and v is _np:
                setattr(m, k, FACADE)
            elif k == "log_gamma":
                setattr(m, k, log_gamma_stub)
            elif hasattr(v, "py_func") and isinstance(getattr(v, "py_func"), types.FunctionType):
                setattr(m, k, v.py_func)
            elif k == "fftconvolve":
                setattr(m, k, fftconvolve_stub)
            elif k == "xxh3_64_hexdigest":
                setattr(m, k, digest_stub)
    import phyclone.data.base as db
    db.log_sum_exp = logsumexp_stub
    for m in mods:
        for k, v in list(vars(m).items()):
            if hasattr(v, "cache_clear") and callable(getattr(v, "cache_clear")):
                _LRU.append(v)
    _applied = True
    reset_caches()


def reset_caches():
    """Drop every memo table of the package (they may hold terms of a previous session/path)."""
    seen = set()
    for f in _LRU:
        if id(f) in seen:
            continue
        seen.add(id(f))
        f.cache_clear()


class FuncTrace:
    """Records which phyclone functions are entered.  sys.setprofile slows execution several-fold, so during path
    exploration only the first few paths are traced (CTX.explore calls pause() after TRACED_PATHS paths)."""
    TRACED_PATHS = 3

    def __init__(self):
        self.seen = set()
        self.active = False
        self.old = None

    def _prof(self, frame, event, arg):
        if event == "call":
            co = frame.f_code
            fnm = co.co_filename
            if "/phyclone/" in fnm and "/tests/" not in fnm:
                mod = fnm.split("/phyclone/", 1)[1][:-3].replace("/", ".")
                self.seen.add(f"phyclone.{mod}:{getattr(co, 'co_qualname', co.co_name)}")

    def resume(self):
        if not self.active:
            self.old = sys.getprofile()
            sys.setprofile(self._prof)
            self.active = True

    def pause(self):
        if self.active:
            sys.setprofile(self.old)
            self.active = False


TRACE = FuncTrace()


def entered_functions(fn):
    """Run fn() and return (result, sorted list of phyclone functions entered while tracing was on)."""
    TRACE.seen = set()
    TRACE.resume()
    try:
        r = fn()
    finally:
        TRACE.pause()
    return r, sorted(TRACE.seen)
