"""Exact transition rows of a sampler move and the invariance query  sum_t gamma(t) K(t,t') = gamma(t').

The state space is produced independently of the samplers (shapes.all_forests).  A move is run from every
state under the enumerating RNG; every path contributes (path condition, probability term, resulting tree).
Data-dependent forks (e.g. the ESS test) make K piecewise; the regions are handed to z3 as selectors so that
the solver itself splits over the feasible combinations.
"""
import math
from fractions import Fraction

import z3

from . import patcher
from .ctx import CTX, Inconclusive
from .shapes import all_forests, tree_key
from .vq import V, fresh


class MoveError(Exception):
    pass


def explore_rows(states, move, before_path=None, catch=()):
    """states: list of (key, tree). Returns rows[key] = list of regions; region = (pc list, {target key: V prob}),
    plus bookkeeping."""
    rows = {}
    info = {"paths": 0, "exceptions": [], "unknown_targets": []}
    keys = {k for k, _ in states}
    for key, tree in states:
        def run(tree=tree):
            return tree_key(move(tree.copy()))
        paths = CTX.explore(run, before_path=before_path, catch=catch)
        info["paths"] += len(paths)
        regions = {}
        for p in paths:
            sig = tuple(x.get_id() for x in p.pc)
            reg = regions.setdefault(sig, (p.pc, {}))
            if p.exc is not None:
                info["exceptions"].append((key, repr(p.exc)))
                continue
            if p.result not in keys:
                info["unknown_targets"].append((key, p.result))
                continue
            reg[1][p.result] = reg[1].get(p.result, _zero()) + p.prob
        rows[key] = list(regions.values())
    return rows, info


def _zero():
    return 0.0 if CTX.float_mode else V(0)


def _one():
    return 1.0 if CTX.float_mode else V(1)


def _atom(l):
    return (l.arg(0), False) if z3.is_not(l) else (l, True)


def cells(rows, max_cells=256):
    """Enumerate the feasible sign vectors of the decision atoms occurring in the path conditions (depth-first,
    pruned by solver feasibility).  Yields (literals, {t: {u: V}}) - the exact rows valid on that cell."""
    atoms = {}
    for groups in rows.values():
        for pc, row in groups:
            for l in pc:
                a, _ = _atom(l)
                atoms.setdefault(a.get_id(), a)
    order = list(atoms.values())
    out = []

    def rec(i, lits, signs):
        if i == len(order):
            K = {}
            for t, groups in rows.items():
                row_t = {}
                for pc, row in groups:
                    ok = True
                    for l in pc:
                        a, sg = _atom(l)
                        if signs[a.get_id()] != sg:
                            ok = False
                            break
                    if ok:
                        for u, v in row.items():
                            row_t[u] = row_t.get(u, V(0)) + v
                K[t] = row_t
            out.append((list(lits), K))
            if len(out) > max_cells:
                raise Inconclusive(f"more than {max_cells} cells")
            return
        a = order[i]
        for sg in (True, False):
            lit = a if sg else z3.Not(a)
            r, _ = CTX.check(lits + [lit])
            if r == "unknown":
                raise Inconclusive("cell feasibility unknown")
            if r == "sat":
                signs[a.get_id()] = sg
                rec(i + 1, lits + [lit], signs)
                del signs[a.get_id()]
    rec(0, [], {})
    return out


def invariance_on_cell(gam, K, lits, timeout_ms=None):
    keys = list(gam)
    bad = []
    for u in keys:
        acc = V(0)
        for t in keys:
            p = K[t].get(u)
            if p is not None:
                acc = acc + gam[t] * p
        c = acc.eq(gam[u])
        if c is True:
            continue
        bad.append(z3.BoolVal(False) if c is False else c)
    if not bad:
        return "unsat", None
    return CTX.check(list(lits) + [z3.Not(z3.And(bad))], want_model=True, timeout_ms=timeout_ms)


def float_residual(gam, rows):
    """max |pi K - pi| and max |rowsum - 1| for float rows (single region per state expected in float mode)."""
    keys = list(gam)
    z = sum(gam.values())
    pi = {k: gam[k] / z for k in keys}
    worst = 0.0
    rs = 0.0
    for t in keys:
        tot = 0.0
        for pc, row in rows[t]:
            tot += sum(row.values())
        rs = max(rs, abs(tot - 1.0))
    for u in keys:
        acc = 0.0
        for t in keys:
            for pc, row in rows[t]:
                acc += pi[t] * row.get(u, 0.0)
        worst = max(worst, abs(acc - pi[u]))
    return worst, rs
