"""Symbolic scalars that live inside numpy object arrays.

Log(e): a log-domain number whose exponential is the V `e` (e >= 0; e == 0 stands for -inf).
Lin(e): a linear-domain number equal to the V `e`.
Python arithmetic on them builds V terms; comparisons return bool or SymBool, whose
truth value is decided by the explorer (vsym.ctx).
"""
import math
from fractions import Fraction

import numpy as _np
import z3

from .vq import V, EncodingGap, to_fraction

_NUM = (int, float, Fraction, _np.integer, _np.floating, bool, _np.bool_)


def _ctx():
    from . import ctx
    return ctx.CTX


class SymBool:
    __slots__ = ("b",)

    def __init__(self, b):
        self.b = b

    def __bool__(self):
        return _ctx().decide(self.b)

    def __invert__(self):
        return mkbool(z3.Not(self.b))

    def __and__(self, o):
        o = o.b if isinstance(o, SymBool) else z3.BoolVal(bool(o))
        return mkbool(z3.And(self.b, o))

    __rand__ = __and__

    def __or__(self, o):
        o = o.b if isinstance(o, SymBool) else z3.BoolVal(bool(o))
        return mkbool(z3.Or(self.b, o))

    __ror__ = __or__

    def __repr__(self):
        return f"SymBool({self.b})"


def mkbool(b):
    if isinstance(b, (bool, _np.bool_)):
        return bool(b)
    if z3.is_true(b):
        return True
    if z3.is_false(b):
        return False
    return SymBool(b)


def _defer(f):
    def g(s, o):
        if isinstance(o, _np.ndarray):
            return NotImplemented
        return f(s, o)
    g.__name__ = f.__name__
    return g


def tolin(o):
    if isinstance(o, Lin):
        return o.e
    if isinstance(o, V):
        return o
    if isinstance(o, _NUM):
        return V(to_fraction(o))
    if isinstance(o, Log):
        raise EncodingGap("log-domain value used in linear arithmetic")
    raise EncodingGap(f"{type(o).__name__} in linear arithmetic")


def tolog(o):
    """Read a Python object as a log-domain number; returns the V of its exponential."""
    if isinstance(o, Log):
        return o.e
    if isinstance(o, _NUM):
        if o == 0:
            return V(1)
        if o == -math.inf:
            return V(0)
        if o == math.inf:
            raise EncodingGap("+inf in log-domain arithmetic")
        return const_log(float(o))
    if isinstance(o, Lin):
        raise EncodingGap("linear-domain value used in log arithmetic")
    raise EncodingGap(f"{type(o).__name__} in log arithmetic")


_CONST_LOGS = {}


def const_log(x):
    """A concrete non-zero float reaching log arithmetic without coming from a stubbed log:
    the logarithm of a fresh positive constant keyed by its value (weaker, never wrong)."""
    from .vq import REG
    key = (REG.generation, x)
    if key not in _CONST_LOGS:
        name = "__explog_" + repr(x).replace("-", "m").replace(".", "_").replace("+", "p")
        _CONST_LOGS[key] = V.var(name, pos=True)
    return _CONST_LOGS[key]


def _intlike(o):
    if isinstance(o, (bool, _np.bool_)):
        return None
    if isinstance(o, (int, _np.integer)):
        return int(o)
    if isinstance(o, (float, _np.floating)) and float(o) == int(o):
        return int(o)
    return None


def _shift(s, o, sign):
    """Remember `base + integer` decompositions (used only by the lgamma recurrence stub)."""
    k = _intlike(o)
    if k is not None:
        base, k0 = s.shift or (s, 0)
        return (base, k0 + sign * k)
    if isinstance(o, Lin) and sign > 0 and (s.shift or o.shift):
        bs, ks = s.shift or (s, 0)
        bo, ko = o.shift or (o, 0)
        return (Lin(bs.e + bo.e), ks + ko)
    return None


class Rounded:
    """round(x, n) of a symbolic linear value.  Usable as a key or printed: two rounded values are equal when they fall in the
    same rounding cell (floor(x * 10^n + 1/2); ties-to-even at exact half-way points is outside the model), decided by the
    solver on the current path - a fork when both are possible.  All share one hash so dictionaries fall through to __eq__."""
    def __init__(s, x, n):
        s.x, s.n = x, int(n)

    def _cell(s):
        return z3.ToInt(s.x.e.term() * (10 ** s.n) + z3.RealVal("1/2"))

    def __hash__(s):
        return hash(("rounded", s.n))

    def __eq__(s, o):
        if isinstance(o, Rounded):
            if o.n != s.n:
                return False
            if o.x.e.key() == s.x.e.key():
                return True
            from .ctx import CTX
            return CTX.decide(s._cell() == o._cell())
        if isinstance(o, (int, float, Fraction)):
            from .ctx import CTX
            return CTX.decide(s._cell() == z3.ToInt(z3.RealVal(str(Fraction(o).limit_denominator(10 ** 12))) * (10 ** s.n) + z3.RealVal("1/2")))
        return False

    def __ne__(s, o):
        return not s.__eq__(o)

    def __repr__(s):
        return f"round({s.x!r}, {s.n})"

    def __format__(s, spec):
        return repr(s)


class Lin:
    __slots__ = ("e", "shift")

    def __init__(self, e, shift=None):
        self.e = e if isinstance(e, V) else V.lift(e)
        self.shift = shift

    @property
    def pos(self):
        return self.e.known_pos()

    @_defer
    def __add__(s, o):
        return Lin(s.e + tolin(o), _shift(s, o, 1))

    __radd__ = __add__

    @_defer
    def __sub__(s, o):
        return Lin(s.e - tolin(o), _shift(s, o, -1))

    @_defer
    def __rsub__(s, o):
        return Lin(tolin(o) - s.e)

    @_defer
    def __mul__(s, o):
        return Lin(s.e * tolin(o))

    __rmul__ = __mul__

    @_defer
    def __truediv__(s, o):
        d = tolin(o)
        _need_pos_denominator(d)
        return Lin(s.e / d)

    @_defer
    def __rtruediv__(s, o):
        _need_pos_denominator(s.e)
        return Lin(tolin(o) / s.e)

    def __pow__(s, k):
        if isinstance(k, (int, _np.integer)):
            return Lin(s.e.pow(int(k)))
        raise EncodingGap("symbolic exponent")

    def __neg__(s):
        return Lin(-s.e)

    def __pos__(s):
        return s

    def __abs__(s):
        if s.pos or s.e.is_zero():
            return s
        return s if bool(s >= 0) else -s

    def _cmp(s, o, op):
        ov = tolin(o)
        if ov.is_const() and s.e.is_const():
            return {"lt": s.e.c < ov.c, "le": s.e.c <= ov.c, "gt": s.e.c > ov.c, "ge": s.e.c >= ov.c,
                    "eq": s.e.c == ov.c, "ne": s.e.c != ov.c}[op]
        if s.pos and ov.is_const() and ov.c <= 0:
            return op in ("gt", "ge", "ne")
        if ov.known_pos() and s.e.is_const() and s.e.c <= 0:
            return op in ("lt", "le", "ne")
        return mkbool(getattr(s.e, op)(ov))

    @_defer
    def __lt__(s, o):
        return s._cmp(o, "lt")

    @_defer
    def __le__(s, o):
        return s._cmp(o, "le")

    @_defer
    def __gt__(s, o):
        return s._cmp(o, "gt")

    @_defer
    def __ge__(s, o):
        return s._cmp(o, "ge")

    @_defer
    def __eq__(s, o):
        if not isinstance(o, (Lin, V) + _NUM):
            return False
        return s._cmp(o, "eq")

    @_defer
    def __ne__(s, o):
        if not isinstance(o, (Lin, V) + _NUM):
            return True
        return s._cmp(o, "ne")

    def __hash__(s):
        return s.e.hash()

    def __bool__(s):
        r = s._cmp(0, "ne")
        return bool(r)

    def __float__(s):
        if s.e.is_const():
            return float(s.e.c)
        raise EncodingGap("float() of a symbolic linear value")

    def __round__(s, n=None):
        if s.e.is_const():
            return round(float(s.e.c), n)
        return Rounded(s, n or 0)

    # numpy calls these methods for object arrays
    def log(s):
        return Log(s.e)

    def log1p(s):
        return Log(V(1) + s.e)

    def exp(s):
        raise EncodingGap("exp of a linear-domain symbolic value")

    def sqrt(s):
        raise EncodingGap("sqrt of a symbolic value")

    def __repr__(s):
        return f"Lin({s.e})"


def _need_pos_denominator(d):
    if d.is_const():
        if d.c == 0:
            raise ZeroDivisionError("symbolic division by constant zero")
        return
    if d.known_nonzero():
        return
    # ask the solver whether the denominator can be zero / non-positive on this path
    from .vq import REG
    c = _ctx()
    if c.prove_positive(d):
        return
    raise EncodingGap("division by a term that is not provably positive")


class Log:
    __slots__ = ("e",)

    def __init__(self, e):
        self.e = e if isinstance(e, V) else V.lift(e)

    @property
    def pos(self):
        """exp(value) known > 0, i.e. the value is known finite."""
        return self.e.known_pos()

    @_defer
    def __add__(s, o):
        return Log(s.e * tolog(o))

    __radd__ = __add__

    @_defer
    def __sub__(s, o):
        d = tolog(o)
        _need_pos_denominator(d)
        return Log(s.e / d)

    @_defer
    def __rsub__(s, o):
        _need_pos_denominator(s.e)
        return Log(tolog(o) / s.e)

    def __neg__(s):
        _need_pos_denominator(s.e)
        return Log(s.e.inv())

    def __pos__(s):
        return s

    @_defer
    def __mul__(s, k):
        if isinstance(k, (bool, _np.bool_)):
            k = int(k)
        if isinstance(k, (float, _np.floating)) and float(k) == int(k):
            k = int(k)
        if isinstance(k, (int, _np.integer)):
            k = int(k)
            if k < 0:
                _need_pos_denominator(s.e)
            return Log(s.e.pow(k))
        if isinstance(k, Lin) and k.e.is_const() and k.e.c.denominator == 1:
            return s * int(k.e.c)
        raise EncodingGap(f"log-domain value times {type(k).__name__} {k!r}")

    __rmul__ = __mul__

    def _cmp(s, o, op):
        ov = tolog(o)
        if ov.is_const() and s.e.is_const():
            return {"lt": s.e.c < ov.c, "le": s.e.c <= ov.c, "gt": s.e.c > ov.c, "ge": s.e.c >= ov.c,
                    "eq": s.e.c == ov.c, "ne": s.e.c != ov.c}[op]
        if s.pos and ov.is_zero():
            return op in ("gt", "ge", "ne")
        if ov.known_pos() and s.e.is_zero():
            return op in ("lt", "le", "ne")
        return mkbool(getattr(s.e, op)(ov))

    @_defer
    def __lt__(s, o):
        return s._cmp(o, "lt")

    @_defer
    def __le__(s, o):
        return s._cmp(o, "le")

    @_defer
    def __gt__(s, o):
        return s._cmp(o, "gt")

    @_defer
    def __ge__(s, o):
        return s._cmp(o, "ge")

    @_defer
    def __eq__(s, o):
        if not isinstance(o, (Log,) + _NUM):
            return False
        return s._cmp(o, "eq")

    @_defer
    def __ne__(s, o):
        if not isinstance(o, (Log,) + _NUM):
            return True
        return s._cmp(o, "ne")

    def __hash__(s):
        return s.e.hash()

    def __bool__(s):
        # truthiness of a float: value != 0.0, i.e. exp(value) != 1
        if s.e.is_const():
            return s.e.c != 1
        return _ctx().sentinel(s)

    def __float__(s):
        if s.e.is_const():
            return math.log(s.e.c) if s.e.c > 0 else -math.inf
        raise EncodingGap("float() of a symbolic log value")

    def __round__(s, n=None):
        return s

    def exp(s):
        return Lin(s.e)

    def log(s):
        raise EncodingGap("log of a log-domain symbolic value")

    def __repr__(s):
        return f"Log({s.e})"


def is_sym(x):
    return isinstance(x, (Log, Lin))


def is_sym_arr(a):
    return isinstance(a, _np.ndarray) and a.dtype == object


def any_sym(*xs):
    for x in xs:
        if isinstance(x, (Log, Lin, SymBool)) or is_sym_arr(x):
            return True
        if isinstance(x, (list, tuple)) and any(any_sym(y) for y in x):
            return True
    return False
