"""Different construction histories of the same forest, using only the public edits of Tree that the
samplers compose (create_root_node, add_data_point_to_node/outliers, remove_data_point_from_node,
get_subtree, remove_subtree, add_subtree, relabel_nodes, copy, to_dict/from_dict)."""
import itertools


def _names_by_block(tree):
    """frozenset(data idx of a clone) -> node name"""
    out = {}
    for name in tree.nodes:
        out[frozenset(dp.idx for dp in tree.get_data(name))] = name
    return out


def build_create(forest, dps, grid, reverse=False, Tree=None):
    if Tree is None:
        from phyclone.tree import Tree
    t = Tree(grid)
    names = {}

    def rec(i):
        ch = forest.children(i)
        if reverse:
            ch = list(reversed(ch))
        for c in ch:
            rec(c)
        names[i] = t.create_root_node(children=[names[c] for c in ch], data=[dps[x] for x in forest.blocks[i]])
    roots = forest.roots()
    if reverse:
        roots = list(reversed(roots))
    for r in roots:
        rec(r)
    outs = list(forest.outliers)
    if reverse:
        outs.reverse()
    for x in outs:
        t.add_data_point_to_outliers(dps[x])
    return t


def build_incremental(forest, dps, grid, Tree=None):
    """SMC style: data points arrive one at a time in a compatible order."""
    if Tree is None:
        from phyclone.tree import Tree
    t = Tree(grid)
    names = {}
    order = forest.depth_order()
    outs = list(forest.outliers)
    for pos, i in enumerate(order):
        b = forest.blocks[i]
        names[i] = t.create_root_node(children=[names[c] for c in forest.children(i)], data=[dps[b[0]]])
        if outs and pos == 0:
            t.add_data_point_to_outliers(dps[outs.pop(0)])
        for x in b[1:]:
            t.add_data_point_to_node(dps[x], names[i])
    for x in outs:
        t.add_data_point_to_outliers(dps[x])
    return t


def build_graft(forest, dps, grid, which, Tree=None):
    """Build the forest without the subtree rooted at clone `which`, build that subtree as its own tree,
    graft it with add_subtree."""
    from .shapes import Forest
    sub = forest.subtree(which)
    rest = [i for i in range(len(forest.blocks)) if i not in sub]
    ridx = {i: k for k, i in enumerate(rest)}
    f_rest = Forest([forest.blocks[i] for i in rest], [None if forest.parent[i] is None else ridx[forest.parent[i]] for i in rest],
                    forest.outliers)
    sidx = {i: k for k, i in enumerate(sub)}
    f_sub = Forest([forest.blocks[i] for i in sub], [None if i == which else sidx[forest.parent[i]] for i in sub])
    t = build_create(f_rest, dps, grid, Tree=Tree)
    s = build_create(f_sub, dps, grid, Tree=Tree)
    parent = None
    if forest.parent[which] is not None:
        parent = _names_by_block(t)[frozenset(forest.blocks[forest.parent[which]])]
    t.add_subtree(s, parent=parent)
    return t


def build_prune_regraft(forest, dps, grid, which, Tree=None):
    """Start from the forest with subtree `which` attached somewhere else, then move it into place with
    get_subtree / remove_subtree / add_subtree / update (as the prune-regraft sampler does)."""
    from .shapes import Forest
    sub = set(forest.subtree(which))
    others = [i for i in range(len(forest.blocks)) if i not in sub and i != forest.parent[which]]
    wrong_parent = others[0] if others else (None if forest.parent[which] is not None else "skip")
    if wrong_parent == "skip":
        return None
    par = list(forest.parent)
    par[which] = wrong_parent
    start = Forest(forest.blocks, par, forest.outliers)
    t = build_create(start, dps, grid, Tree=Tree)
    nm = _names_by_block(t)
    subtree = t.get_subtree(nm[frozenset(forest.blocks[which])])
    t.remove_subtree(subtree)
    parent = None
    if forest.parent[which] is not None:
        parent = _names_by_block(t)[frozenset(forest.blocks[forest.parent[which]])]
    t.add_subtree(subtree, parent=parent)
    t.update()
    return t


def build_move_dp(forest, dps, grid, Tree=None):
    """Start with one data point of a multi-point clone sitting in another clone (or the outlier set), then move it."""
    from .shapes import Forest
    for i, b in enumerate(forest.blocks):
        if len(b) > 1:
            x = b[-1]
            others = [j for j in range(len(forest.blocks)) if j != i]
            blocks = [list(bb) for bb in forest.blocks]
            blocks[i].remove(x)
            if others:
                blocks[others[0]].append(x)
                start = Forest(blocks, forest.parent, forest.outliers)
                t = build_create(start, dps, grid, Tree=Tree)
                nm = _names_by_block(t)
                t.remove_data_point_from_node(dps[x], nm[frozenset(blocks[others[0]])])
                t.add_data_point_to_node(dps[x], nm[frozenset(blocks[i])])
            else:
                start = Forest(blocks, forest.parent, list(forest.outliers) + [x])
                t = build_create(start, dps, grid, Tree=Tree)
                nm = _names_by_block(t)
                t.remove_data_point_from_outliers(dps[x])
                t.add_data_point_to_node(dps[x], nm[frozenset(blocks[i])])
            return t
    return None


def variants(forest, dps, grid, limit=None):
    """Yield (history name, tree) - every tree must equal the forest."""
    from phyclone.tree import Tree
    out = []
    out.append(("create", lambda: build_create(forest, dps, grid)))
    if len(forest.blocks) > 1 or len(forest.outliers) > 1:
        out.append(("create-reversed", lambda: build_create(forest, dps, grid, reverse=True)))
    out.append(("incremental", lambda: build_incremental(forest, dps, grid)))
    out.append(("relabel", lambda: _relabel(build_create(forest, dps, grid, reverse=True))))
    out.append(("copy", lambda: build_create(forest, dps, grid).copy()))
    out.append(("dict-roundtrip", lambda: Tree.from_dict(build_incremental(forest, dps, grid).to_dict())))
    K = len(forest.blocks)
    if K >= 1:
        # graft the last clone in depth order that has a parent (or a top-level one)
        cand = [i for i in range(K) if forest.parent[i] is not None] or list(range(K))
        out.append((f"graft-{cand[-1]}", lambda: build_graft(forest, dps, grid, cand[-1])))
        if K >= 2:
            out.append((f"prune-regraft-{cand[0]}", lambda: build_prune_regraft(forest, dps, grid, cand[0])))
            out.append((f"graft-then-relabel-{cand[0]}", lambda: _relabel(build_graft(forest, dps, grid, cand[0]))))
    if any(len(b) > 1 for b in forest.blocks):
        out.append(("move-data-point", lambda: build_move_dp(forest, dps, grid)))
    if limit:
        out = out[:limit]
    for name, fn in out:
        t = fn()
        if t is not None:
            yield name, t


def _relabel(t):
    t.relabel_nodes()
    return t
