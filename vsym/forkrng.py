"""Enumerating random generator: every draw is a choice point with an exact probability.

Implements the numpy.random.Generator methods phyclone calls (random, shuffle, choice,
integers, multinomial) and recorders for the scipy.stats rvs calls.  Probabilities are
Fractions, V terms (symbolic) or floats (replay on the unpatched code).
"""
import itertools
import math
from fractions import Fraction

import numpy as _np

from .vq import V, EncodingGap, to_fraction
from .scalars import Lin, Log
from . import ctx as _ctx


def _C():
    return _ctx.CTX


def _pv(x):
    """probability as V (symbolic mode) or float (float mode)"""
    if _C().float_mode:
        return float(x.e.c) if isinstance(x, Lin) and x.e.is_const() else float(x)
    if isinstance(x, Lin):
        return x.e
    if isinstance(x, V):
        return x
    return V(to_fraction(x))


class UDraw:
    """A uniform(0,1) draw; `u < thr` forks with the exact interval probabilities."""

    def __init__(self):
        self.lo = None  # V or float
        self.hi = None

    def __lt__(self, thr):
        C = _C()
        if C.float_mode:
            thr = float(thr)
            lo = 0.0 if self.lo is None else self.lo
            hi = 1.0 if self.hi is None else self.hi
            thr = min(max(thr, lo), hi)
            pt, pf = (thr - lo) / (hi - lo), (hi - thr) / (hi - lo)
            if pt <= 0:
                return False
            if pf <= 0:
                return True
            c = C.choose([pt, pf])
            if c == 0:
                self.hi = thr
                return True
            self.lo = thr
            return False
        t = Lin(_pv(thr))
        lo = Lin(V(0)) if self.lo is None else self.lo
        hi = Lin(V(1)) if self.hi is None else self.hi
        if bool(t <= lo):
            return False
        if bool(t >= hi):
            return True
        w = hi - lo
        pt = (t - lo) / w
        pf = (hi - t) / w
        c = C.choose([pt.e, pf.e])
        if c == 0:
            self.hi = t
            return True
        self.lo = t
        return False

    def __gt__(self, thr):
        return not (self < thr)

    def __ge__(self, thr):
        return not (self < thr)

    def __le__(self, thr):
        return self < thr


def _key(x):
    if isinstance(x, (int, _np.integer)):
        return ("i", int(x))
    if isinstance(x, str):
        return ("s", x)
    return ("o", id(x))


def _merge(outcomes):
    """[(key, value, prob)] -> merge identical keys, keep first-seen order"""
    d = {}
    for k, v, p in outcomes:
        if k in d:
            d[k][1] = d[k][1] + p
        else:
            d[k] = [v, p]
    return [(v, p) for v, p in d.values()]


class ForkRNG:
    """Stands in for numpy.random.Generator."""

    def random(self):
        return UDraw()

    def shuffle(self, lst):
        n = len(lst)
        if n <= 1:
            return
        base = Fraction(1, math.factorial(n))
        outs = _merge([(tuple(_key(x) for x in p), list(p), base) for p in itertools.permutations(list(lst))])
        c = _C().choose([_pv(p) for _, p in outs])
        lst[:] = outs[c][0]

    def integers(self, lo, hi=None, size=None, dtype=None, endpoint=False):
        if hi is None:
            lo, hi = 0, lo
        n = int(hi) - int(lo) + (1 if endpoint else 0)
        if n <= 0:
            raise ValueError("low >= high")
        if size is None:
            return int(lo) + _C().choose([_pv(Fraction(1, n))] * n)
        if not isinstance(size, (int, _np.integer)):
            raise EncodingGap("integers with a shape")
        return _np.array([int(lo) + _C().choose([_pv(Fraction(1, n))] * n) for _ in range(int(size))], dtype=int)

    def choice(self, a, size=None, replace=True, p=None):
        if p is not None:
            raise EncodingGap("choice with p")
        a = list(a)
        if size is None:
            if len(a) == 0:
                raise ValueError("a cannot be empty unless no samples are taken")
            outs = _merge([(_key(x), x, Fraction(1, len(a))) for x in a])
            return outs[_C().choose([_pv(q) for _, q in outs])][0]
        size = int(size)
        if replace is not False:
            # numpy's default: independent uniform draws, i.e. every ordered tuple with repetition equally likely
            if size == 0:
                return _np.array([], dtype=int)
            if len(a) == 0:
                raise ValueError("a cannot be empty unless no samples are taken")
            tups = list(itertools.product(a, repeat=size))
            c = _C().choose([_pv(Fraction(1, len(tups)))] * len(tups))
            return _np.array(tups[c])
        if size > len(a):
            raise ValueError("Cannot take a larger sample than population when replace is False")
        if size == 0:
            return _np.array([], dtype=int)
        perms = list(itertools.permutations(a, size))
        c = _C().choose([_pv(Fraction(1, len(perms)))] * len(perms))
        return _np.array(perms[c])

    def multinomial(self, n, pvals):
        p = list(pvals)
        k = len(p)
        n = int(n)
        C = _C()
        if n == 1:
            c = C.choose([_pv(x) for x in p])
            out = _np.zeros(k, dtype=int)
            out[c] = 1
            return out
        if n == 0:
            return _np.zeros(k, dtype=int)
        comps = [c for c in itertools.product(range(n + 1), repeat=k) if sum(c) == n]
        probs = []
        for c in comps:
            coef = math.factorial(n)
            for ci in c:
                coef //= math.factorial(ci)
            if C.float_mode:
                e = float(coef)
                for ci, pi in zip(c, p):
                    e *= float(pi) ** ci
            else:
                e = V(coef)
                for ci, pi in zip(c, p):
                    if ci:
                        e = e * _pv(pi).pow(ci)
            probs.append(e)
        return _np.array(comps[C.choose(probs)], dtype=int)

    def spawn(self, n):
        return [ForkRNG() for _ in range(n)]
