"""Division-free symbolic reals.

A value is  c * prod(atom_i ** k_i)  with c a Fraction, k_i non-zero integers and
atoms z3 real terms (input variables, sums of products, `max` variables).  No
division is ever handed to the solver: comparisons cross-multiply, which is
sound because an atom may only carry a negative exponent when it is known to
be strictly positive.  Only syntactic cancellation of identical atoms is done
on our side; whether two polynomials are equal is left to z3.
"""
from fractions import Fraction
import z3


class EncodingGap(Exception):
    """The code did something the symbolic encoding does not cover (never a verdict)."""


class Registry:
    def __init__(self):
        self.reset()

    def reset(self):
        self.atoms = {}        # z3 ast id -> (term, known_positive)
        self.defs = {}         # name of a defined (max) variable -> list of z3 constraints
        self.variables = {}    # name -> (z3 const, known_positive)
        self.max_args = {}     # name of a max variable -> the V's it is the maximum of
        self.max_memo = {}     # sorted argument keys -> max variable
        self.path_pos = set()  # atoms proved positive under the current path condition only (cleared per path)
        self.counter = 0
        self.generation = getattr(self, "generation", 0) + 1


REG = Registry()


def _reg(term, pos):
    i = term.get_id()
    if i not in REG.atoms:
        REG.atoms[i] = (term, bool(pos))
    return i


def atom_pos(i):
    return REG.atoms[i][1] or i in REG.path_pos


def _prod_term(c, at):
    """z3 term of c * prod(atom ** k) over the strictly positive exponents in `at`."""
    t = None
    for i in sorted(at):
        k = at[i]
        if k > 0:
            a = REG.atoms[i][0]
            for _ in range(k):
                t = a if t is None else t * a
    if t is None:
        return z3.RealVal(str(c))
    if c == 1:
        return t
    return z3.RealVal(str(c)) * t


def to_fraction(x):
    if isinstance(x, Fraction):
        return x
    if isinstance(x, bool):
        return Fraction(int(x))
    if isinstance(x, int):
        return Fraction(x)
    if isinstance(x, float):
        if x != x or x in (float("inf"), float("-inf")):
            raise EncodingGap(f"non-finite concrete number {x!r} in linear arithmetic")
        # concrete float constants are read as the simplest nearby rational (0.1 -> 1/10)
        f = Fraction(x)
        g = f.limit_denominator(10 ** 9)
        if f == 0 or abs(g - f) <= abs(f) * Fraction(1, 10 ** 12):
            return g
        return f
    try:
        import numpy as _np
        if isinstance(x, _np.integer):
            return Fraction(int(x))
        if isinstance(x, _np.floating):
            return to_fraction(float(x))
        if isinstance(x, _np.bool_):
            return Fraction(int(x))
    except ImportError:  # pragma: no cover
        pass
    raise EncodingGap(f"cannot read {type(x).__name__} as a rational")


class V:
    __slots__ = ("c", "at", "_pos")

    def __init__(self, c=0, at=None):
        self.c = c if isinstance(c, Fraction) else to_fraction(c)
        self.at = at if (at and self.c != 0) else {}
        self._pos = None

    # -- construction -----------------------------------------------------
    @staticmethod
    def var(name, pos=True):
        if name in REG.variables:
            v, p = REG.variables[name]
        else:
            v = z3.Real(name)
            REG.variables[name] = (v, pos)
        return V(Fraction(1), {_reg(v, pos): 1})

    @staticmethod
    def lift(x):
        if isinstance(x, V):
            return x
        if isinstance(x, z3.ExprRef):
            if z3.is_rational_value(x):
                return V(Fraction(x.numerator_as_long(), x.denominator_as_long()))
            return V(Fraction(1), {_reg(x, False): 1})
        return V(to_fraction(x))

    # -- inspection -------------------------------------------------------
    def is_const(self):
        return not self.at

    def is_zero(self):
        return self.c == 0

    def known_pos(self):
        if self._pos is None:
            self._pos = self.c > 0 and all(REG.atoms[i][1] for i in self.at)
        if not self._pos and REG.path_pos and self.c > 0:
            return all(atom_pos(i) for i in self.at)      # path-scoped knowledge is never cached on the value
        return self._pos

    def known_nonzero(self):
        return self.c != 0 and all(atom_pos(i) for i in self.at)

    def key(self):
        return (self.c, tuple(sorted(self.at.items())))

    def hash(self):
        return hash(self.key())

    # -- arithmetic -------------------------------------------------------
    def __mul__(self, o):
        o = V.lift(o)
        c = self.c * o.c
        if c == 0:
            return V(0)
        at = dict(self.at)
        for i, k in o.at.items():
            nk = at.get(i, 0) + k
            if nk:
                at[i] = nk
            else:
                at.pop(i, None)
        return V(c, at)

    __rmul__ = __mul__

    def inv(self):
        if self.c == 0:
            raise EncodingGap("division by a syntactic zero")
        for i in self.at:
            if not atom_pos(i) and self.at[i] > 0:
                raise EncodingGap("division by a term of unknown sign")
        return V(1 / self.c, {i: -k for i, k in self.at.items()})

    def pow(self, k):
        k = int(k)
        if k == 0:
            return V(1)
        if k < 0:
            return self.inv().pow(-k)
        return V(self.c ** k, {i: e * k for i, e in self.at.items()})

    def __truediv__(self, o):
        return self * V.lift(o).inv()

    def __rtruediv__(self, o):
        return V.lift(o) * self.inv()

    def __neg__(self):
        return V(-self.c, dict(self.at))

    def __add__(self, o):
        o = V.lift(o)
        if self.c == 0:
            return o
        if o.c == 0:
            return self
        if self.at == o.at:
            return V(self.c + o.c, dict(self.at))
        keys = set(self.at) | set(o.at)
        common = {}
        for i in keys:
            m = min(self.at.get(i, 0), o.at.get(i, 0))
            if m:
                common[i] = m
        ra = {}
        rb = {}
        for i in keys:
            m = common.get(i, 0)
            a = self.at.get(i, 0) - m
            b = o.at.get(i, 0) - m
            if a:
                ra[i] = a
            if b:
                rb[i] = b
        ta = _prod_term(self.c, ra)
        tb = _prod_term(o.c, rb)
        pos = self.c > 0 and o.c > 0 and all(REG.atoms[i][1] for i in ra) and all(REG.atoms[i][1] for i in rb)
        if ta.get_id() > tb.get_id():
            ta, tb = tb, ta          # commutative canonical order: the same pair always yields the same term
        i = _reg(ta + tb, pos)
        at = dict(common)
        nk = at.get(i, 0) + 1
        if nk:
            at[i] = nk
        else:
            at.pop(i, None)
        return V(Fraction(1), at)

    __radd__ = __add__

    def __sub__(self, o):
        return self + (-V.lift(o))

    def __rsub__(self, o):
        return V.lift(o) + (-self)

    # -- comparisons (return z3 Bool or Python bool) -------------------------
    def _cross(self, o):
        """Cross-multiplied polynomial sides (lhs, rhs) with self ~ o  <=>  lhs ~ rhs."""
        o = V.lift(o)
        l = {}
        r = {}
        for i in set(self.at) | set(o.at):
            ks = self.at.get(i, 0)
            ko = o.at.get(i, 0)
            if atom_pos(i):
                m = min(ks, ko)
                ks -= m
                ko -= m
            else:
                if ks < 0 or ko < 0:
                    raise EncodingGap("term of unknown sign in a denominator")
            if ks:
                l[i] = ks
            if ko:
                r[i] = ko
        return _prod_term(self.c, l), _prod_term(o.c, r)

    def eq(self, o):
        o = V.lift(o)
        if self.key() == o.key():
            return True
        if self.at == o.at:
            return self.c == o.c if self.known_nonzero() or not self.at else _simp(_mk(self, o, "eq"))
        return _simp(_mk(self, o, "eq"))

    def ne(self, o):
        r = self.eq(o)
        if isinstance(r, bool):
            return not r
        return _simp(z3.Not(r))

    def lt(self, o):
        return _simp(_mk(self, o, "lt"))

    def le(self, o):
        return _simp(_mk(self, o, "le"))

    def gt(self, o):
        return _simp(_mk(V.lift(o), self, "lt"))

    def ge(self, o):
        return _simp(_mk(V.lift(o), self, "le"))

    __hash__ = None

    # -- output -----------------------------------------------------------
    def term(self):
        """Plain z3 term (uses division when there are negative exponents)."""
        n = _prod_term(self.c, self.at)
        d = {i: -k for i, k in self.at.items() if k < 0}
        if not d:
            return n
        return n / _prod_term(Fraction(1), d)

    def eval(self, model):
        """Exact value under a z3 model (model completion on)."""
        v = self.c
        for i, k in self.at.items():
            a = model.eval(REG.atoms[i][0], model_completion=True)
            a = _z3_to_fraction(a)
            v = v * (a ** k)
        return v

    def __repr__(self):
        items = {str(REG.atoms[i][0])[:40]: k for i, k in self.at.items()}
        return f"V({self.c},{items})"


def _z3_to_fraction(a):
    if z3.is_rational_value(a):
        return Fraction(a.numerator_as_long(), a.denominator_as_long())
    if z3.is_algebraic_value(a):
        a = a.approx(30)
        return Fraction(a.numerator_as_long(), a.denominator_as_long())
    a = z3.simplify(a)
    if z3.is_rational_value(a):
        return Fraction(a.numerator_as_long(), a.denominator_as_long())
    raise EncodingGap(f"model value not rational: {a}")


def _mk(a, b, op):
    l, r = a._cross(b)
    if op == "eq":
        return l == r
    if op == "lt":
        return l < r
    if op == "le":
        return l <= r
    raise AssertionError(op)


def _simp(b):
    if isinstance(b, bool):
        return b
    s = z3.simplify(b)
    if z3.is_true(s):
        return True
    if z3.is_false(s):
        return False
    return s


def vmax(vals):
    """max of V's as a fresh variable with its defining constraints (indexed for cone-of-influence)."""
    vals = list(vals)
    if len(vals) == 1:
        return vals[0]
    # syntactic shortcuts
    keys = {}
    for v in vals:
        keys.setdefault(v.key(), v)
    vals = list(keys.values())
    if len(vals) == 1:
        return vals[0]
    consts = [v for v in vals if v.is_const()]
    if len(consts) > 1:
        best = max(consts, key=lambda v: v.c)
        vals = [v for v in vals if not v.is_const()] + [best]
        if len(vals) == 1:
            return vals[0]
    mkey = tuple(sorted(v.key() for v in vals))
    hit = REG.max_memo.get(mkey)
    if hit is not None:
        return hit                      # the same maximum (re-executed path, repeated call): one variable, one definition
    REG.counter += 1
    name = f"__max{REG.counter}"
    # only path-independent sign knowledge may flow into the (memoised, session-wide) variable's flag
    pos = any(v.c > 0 and all(REG.atoms[i][1] for i in v.at) for v in vals)
    m = V.var(name, pos=pos)
    cs = []
    for v in vals:
        g = m.ge(v)
        if g is not True:
            cs.append(g if not isinstance(g, bool) else z3.BoolVal(g))
    eqs = []
    for v in vals:
        e = m.eq(v)
        eqs.append(e if not isinstance(e, bool) else z3.BoolVal(e))
    cs.append(z3.Or(eqs))
    REG.defs[name] = cs
    REG.max_args[name] = vals
    REG.max_memo[mkey] = m
    return m


def fresh(prefix, pos=True):
    REG.counter += 1
    return V.var(f"__{prefix}{REG.counter}", pos=pos)


def collect_consts(t, seen, out):
    stack = [t]
    while stack:
        t = stack.pop()
        i = t.get_id()
        if i in seen:
            continue
        seen.add(i)
        if z3.is_const(t):
            if t.decl().kind() == z3.Z3_OP_UNINTERPRETED:
                out.add(t.decl().name())
            continue
        stack.extend(t.children())


def relevant_defs(terms):
    """Definitions of the defined variables occurring (transitively) in `terms`."""
    seen = set()
    names = set()
    for t in terms:
        if isinstance(t, bool):
            continue
        collect_consts(t, seen, names)
    todo = [n for n in names if n in REG.defs]
    done = set()
    res = []
    while todo:
        n = todo.pop()
        if n in done:
            continue
        done.add(n)
        for c in REG.defs[n]:
            res.append(c)
            nn = set()
            collect_consts(c, seen, nn)
            names |= nn
            todo.extend(x for x in nn if x in REG.defs and x not in done)
    return res, names
