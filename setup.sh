#!/bin/sh
# Build the overlay venv used by every check: /venv's packages + /repo on the path, z3-solver and cvc5 from the offline wheelhouse.
set -e
cd "$(dirname "$0")"
if [ ! -x .venv/bin/python ] || ! .venv/bin/python -c 'import z3, numpy, numba, rustworkx' 2>/dev/null; then
  rm -rf .venv
  /venv/bin/python -m venv .venv
  SP=$(.venv/bin/python -c 'import site; print(site.getsitepackages()[0])')
  printf '/venv/lib/python3.12/site-packages\n/repo\n' > "$SP/verif_overlay.pth"
  PIP_NO_INDEX=1 .venv/bin/python -m pip install -q --no-index --find-links /opt/veriftools/wheels z3-solver cvc5 jsonschema 2>&1 | tail -2 || true
  .venv/bin/python -c 'import z3; print("z3", z3.get_version_string())'
fi
