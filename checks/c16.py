"""C16 - the consensus tree contains exactly the clades with majority support.

Executed symbolically: get_consensus_tree, clade_probabilities, key_above_threshold, consensus,
find_smallest_superset, relabel/_relabel, clean_tree, tree.utils.get_clades/_clades, get_tree_from_consensus_graph,
from_dict_nx, and write_consensus_results with its I/O replaced by in-memory recorders (create_topology_dict_from_trace,
count_topology, exp_normalize run for real).  networkx runs for real.  Symbolic: the threshold tau in [1/2, 1] and, in
weighted mode, every entry's log_p_one; each `value > tau` forks under z3.
"""
import itertools
from fractions import Fraction

import z3

from vsym import harness, patcher, mutate, wellformed
from vsym.build import sym_dp, float_dp, model_values
from vsym.ctx import CTX, Inconclusive
from vsym.scalars import Log, Lin
from vsym.shapes import all_forests
from vsym.vq import V

META = {"property_id": "C16", "level": "other"}

CANARIES = {
    "nests_under_largest_superset": ("phyclone.process_trace.consensus", "find_smallest_superset",
                                     "if candidate_superset_size < smallest_superset_size:", "if smallest_superset is None or candidate_superset_size > len(smallest_superset):"),
    "counts_not_normalised": ("phyclone.process_trace.consensus", "clade_probabilities",
                              "clades_counter[clade] = clades_counter[clade] / len(trees)", "clades_counter[clade] = clades_counter[clade] / (len(trees) + 1)"),
    "weights_ignore_counts": ("phyclone.process_trace.process_trace", "write_consensus_results",
                              'probs.append(top_info["log_p_joint_max"] + np.log(top_info["count"]))', 'probs.append(top_info["log_p_joint_max"])'),
}


def apply_canary(name):
    return mutate.mutate(*CANARIES[name])


def _combos(n, k):
    fs = all_forests(n, outliers=False) if n >= 3 else all_forests(n, outliers=True)
    return fs, list(itertools.combinations(range(len(fs)), k))


def jobs(tier, seed):
    out = []
    chunk = 60
    plan = [(2, 1, 1), (2, 2, 1), (3, 1, 1), (3, 2, 1), (3, 3, 5 if tier == "quick" else 1), (4, 1, 1)]     # n=4 singles: branching shapes with equal-sized unrelated clades
    if tier == "thorough":
        plan.append((4, 2, 40))
    for n, k, stride in plan:
        fs, cs = _combos(n, k)
        cs = cs[::stride]
        for i in range(0, len(cs), chunk):
            for mode in ("weighted", "counts", "file", "file-counts"):
                if mode.startswith("file") and (i // chunk) % 3 != 0 and tier == "quick":
                    continue
                out.append({"name": f"n{n}-k{k}-{mode}-{i}", "n": n, "k": k, "stride": stride, "lo": i, "hi": min(i + chunk, len(cs)), "mode": mode,
                            "cost": k * k * (3 if mode == "file" else 1)})
    for cname, mode in (("nests_under_largest_superset", "counts"), ("counts_not_normalised", "counts"), ("weights_ignore_counts", "file")):
        kk = 1 if cname == "nests_under_largest_superset" else 2
        out.append({"name": f"canary-{cname}", "canary": cname, "n": 3, "k": kk, "stride": 1, "lo": 0, "hi": 40, "mode": mode, "cost": 10})
    return out


def _install_io(results):
    """write_consensus_results reads a gzip pickle and writes two files: both ends become in-memory recorders."""
    import phyclone.process_trace.process_trace as pt
    captured = {}

    class FakeGz:
        def __init__(self, *a, **k):
            pass

        def __enter__(self):
            return self

        def __exit__(self, *a):
            return False

    class FakePickle:
        @staticmethod
        def load(fh):
            return results
    old = (pt.gzip, pt.pickle, pt.get_clone_table, pt._create_results_output_files)

    class G:
        GzipFile = FakeGz
    pt.gzip, pt.pickle = G, FakePickle
    pt.get_clone_table = lambda data, samples, tree, clusters=None: {"tree": tree}
    pt._create_results_output_files = lambda a, b, table, tree: captured.update(tree=tree)
    pt.pd_DataFrame_orig = pt.pd.DataFrame

    class PD:
        DataFrame = staticmethod(lambda x: x)

        def __getattr__(self, k):
            return getattr(old_pd, k)
    old_pd = pt.pd
    pt.pd = PD()

    def undo():
        pt.gzip, pt.pickle, pt.get_clone_table, pt._create_results_output_files = old
        pt.pd = old_pd
    return captured, undo


def _clades_of_graph(g):
    import networkx as nx
    got = set()
    for nd in g.nodes:
        desc = set(g.nodes[nd]["idxs"])
        for m in nx.descendants(g, nd):
            desc |= set(g.nodes[m]["idxs"])
        got.add(frozenset(desc))
    return got


def _tree_clades(tree):
    from phyclone.tree.utils import get_clades
    return get_clades(tree)


def work(job):
    from phyclone.process_trace.consensus import get_consensus_tree
    from phyclone.process_trace.process_trace import get_tree_from_consensus_graph, write_consensus_results
    res = {"obligations": 0, "discharged": 0, "cex": [], "nontrivial": job["k"] > 1, "cases": 0, "paths_total": 0}
    n, k, mode = job["n"], job["k"], job["mode"]
    fs, cs = _combos(n, k)
    cs = cs[::job["stride"]][job["lo"]:job["hi"]]
    CTX.new_session()
    CTX.sentinel_mode = "assume"
    tau = V.var("tau")
    CTX.assume(tau.ge(V(Fraction(1, 2))))
    CTX.assume(tau.le(V(1)))
    dps = [sym_dp(i, 1, 2) for i in range(n)]
    trees = [f.to_tree(dps, (1, 2)) for f in fs]
    sample = {}

    def run():
        for combo in cs:
            res["cases"] += 1
            for mult in ([(1,) * k] if mode != "counts" or k > 2 else [(1,) * k, (2,) + (1,) * (k - 1)]):
                if mode.startswith("file") and k <= 2:
                    mult = (2,) + (1,) * (k - 1)
                _one_case(combo, mult)
                if res["cex"]:
                    return

    def _one_case(combo, mult):
        sel = [trees[i] for i in combo]
        # supports as V terms (oracle side), built from the same unknowns the code sees
        if mode == "weighted":
            ws = [V.var(f"w{j}") for j in range(k)]
            tot = V(0)
            for w in ws:
                tot = tot + w
            weights = [w / tot for w in ws]              # normalised, as write_consensus_results passes them
            args = dict(trees=sel, weighted=True, log_p_list=[Lin(w) for w in weights])
        elif mode == "counts":
            seq = [t for t, m in zip(sel, mult) for _ in range(m)]
            weights = [V(Fraction(m, sum(mult))) for m in mult]
            args = dict(trees=seq, weighted=False, log_p_list=None)
        else:
            # trace file: entry e holds tree sel[j] (relabelled copy for repeats) with its own symbolic log_p_one
            entries = []
            ls = []
            for j, (t, m) in enumerate(zip(sel, mult)):
                for r in range(m):
                    lv = V.var(f"l{j}_{r}")
                    ls.append((j, lv))
                    tt = t.copy()
                    if r:
                        tt.relabel_nodes()
                    entries.append({"iter": len(entries), "alpha": 1.0, "log_p_one": Log(lv), "tree": tt.to_dict(), "time": 0.0})
            half = max(1, len(entries) // 2)
            results = {0: {"data": dps, "samples": ["s"], "trace": entries[:half], "chain_num": 0}}
            if entries[half:]:
                results[1] = {"data": dps, "samples": ["s"], "trace": entries[half:], "chain_num": 1}

        def call():
            if not mode.startswith("file"):
                g = get_consensus_tree(data=dps, threshold=Lin(tau), **args)
                tree = get_tree_from_consensus_graph(dps, g)
                return _clades_of_graph(g), tree
            captured, undo = _install_io(results)
            try:
                write_consensus_results("in", "table", "tree", consensus_threshold=Lin(tau),
                                        weight_type=("counts" if mode == "file-counts" else "joint-likelihood"))
            finally:
                undo()
            tree = captured["tree"]
            return set(_tree_clades(tree)), tree
        paths = CTX.explore(call, catch=(Exception,), before_path=patcher.reset_caches)
        res["paths_total"] += len(paths)
        for p in paths:
            res["obligations"] += 3
            if p.exc is not None:
                r, model = CTX.check(p.pc, want_model=True)
                res["cex"].append({"kind": "exception", "detail": repr(p.exc), "values": model_values(model) if model else {},
                                   "combo": list(combo), "mult": list(mult)})
                return
            got, tree = p.result
            res["discharged"] += 1
            # supports (oracle)
            if mode == "file-counts":
                cw = [V(Fraction(m, sum(mult))) for m in mult]
                sup_terms = [({c: sum((cw[j] for j in range(k) if c in _tree_clades(sel[j])), V(0)) for c in _all_clades(sel)}, [])]
            elif mode == "file":
                # weight of tree j = count_j * max_r l_{j,r}, normalised; handled per path: the max is whichever the pc allows, so
                # the claim is stated with explicit max via case split over r
                sup_terms = _file_supports(sel, mult, ls)
            else:
                sup_terms = [({c: sum((weights[j] for j in range(k) if c in _tree_clades(sel[j])), V(0)) for c in _all_clades(sel)}, [])]
            okpath = True
            for sup, extra in sup_terms:
                bad = []
                for c, s in sup.items():
                    above = s.gt(tau)
                    above = z3.BoolVal(above) if isinstance(above, bool) else above
                    bad.append(z3.Not(above) if c in got else above)
                for c in got:
                    if c not in sup:
                        bad.append(z3.BoolVal(True))
                r, model = CTX.check(list(p.pc) + list(extra) + [z3.Or(bad)], want_model=True)
                if r == "sat":
                    res["cex"].append({"kind": "wrong-clades", "got": [sorted(c) for c in got], "values": model_values(model),
                                       "combo": list(combo), "mult": list(mult)})
                    okpath = False
                    break
                if r != "unsat":
                    raise Inconclusive("clade query unknown")
            if not okpath:
                return
            res["discharged"] += 1
            # the tree handed to the table writer: valid forest over all data, uncovered points are outliers
            probs = wellformed.problems(tree, expected_idxs=range(n))
            covered = set().union(*got) if got else set()
            outl = {dp.idx for dp in tree.outliers}
            if probs or outl != set(range(n)) - covered or set(_tree_clades(tree)) != got:
                res["cex"].append({"kind": "bad-consensus-tree", "detail": str(probs[:2]), "values": {}, "combo": list(combo), "mult": list(mult)})
                return
            res["discharged"] += 1
        if not sample and len(paths) > 2:
            sample.update({"forests": [fs[i].describe() for i in combo], "mode": mode, "multiplicities": list(mult), "paths": len(paths)})

    def _all_clades(sel):
        out = set()
        for t in sel:
            out |= set(_tree_clades(t))
        return out

    def _file_supports(sel, mult, ls):
        """one (support map, extra hypotheses) per choice of which entry attains each tree's maximum"""
        outs = []
        per = [[lv for j2, lv in ls if j2 == j] for j in range(len(sel))]
        for choice in itertools.product(*[range(len(x)) for x in per]):
            extra = []
            tops = []
            for j, r in enumerate(choice):
                for other in per[j]:
                    e = per[j][r].ge(other)
                    if not isinstance(e, bool):
                        extra.append(e)
                tops.append(per[j][r] * mult[j])
            tot = V(0)
            for t in tops:
                tot = tot + t
            w = [t / tot for t in tops]
            outs.append(({c: sum((w[j] for j in range(len(sel)) if c in _tree_clades(sel[j])), V(0)) for c in _all_clades(sel)}, extra))
        return outs

    _, funcs = patcher.entered_functions(run)
    res["functions"] = funcs
    res["twin_ok"] = res["cases"] > 0 and res["paths_total"] > 0
    res["status"] = "cex" if res["cex"] else "ok"
    for c in res["cex"]:
        c.update({"finding_key": "C16:" + c["kind"], "job": {k2: job[k2] for k2 in ("n", "k", "mode")}})
    res["sample"] = sample
    return res


def replay(case):
    """Concrete twin: tau, weights / scores from the model; count mode through get_consensus_tree, file mode through write_consensus_results."""
    import math
    import numpy as np
    from phyclone.process_trace.consensus import get_consensus_tree
    from phyclone.process_trace.process_trace import get_tree_from_consensus_graph, write_consensus_results
    job = case["job"]
    n, k, mode = job["n"], job["k"], job["mode"]
    fs, _ = _combos(n, k)
    dps = [float_dp(i, 1, 2, {}) for i in range(n)]
    sel = [fs[i].to_tree(dps, (1, 2)) for i in case["combo"]]
    mult = case["mult"]
    vals = {kk: float(Fraction(v)) for kk, v in case.get("values", {}).items()}
    tau = vals.get("tau", 0.5)
    try:
        if mode == "weighted":
            ws = [vals.get(f"w{j}", 1.0) for j in range(k)]
            w = [x / sum(ws) for x in ws]
            g = get_consensus_tree(sel, data=dps, threshold=tau, weighted=True, log_p_list=w)
            got = _clades_of_graph(g)
            tree = get_tree_from_consensus_graph(dps, g)
        elif mode == "counts":
            seq = [t for t, m in zip(sel, mult) for _ in range(m)]
            w = [m / sum(mult) for m in mult]
            g = get_consensus_tree(seq, data=dps, threshold=tau, weighted=False)
            got = _clades_of_graph(g)
            tree = get_tree_from_consensus_graph(dps, g)
        else:
            entries = []
            tops = []
            for j, (t, m) in enumerate(zip(sel, mult)):
                best = -math.inf
                for r in range(m):
                    lv = math.log(vals.get(f"l{j}_{r}", 1.0))
                    best = max(best, lv)
                    tt = t.copy()
                    if r:
                        tt.relabel_nodes()
                    entries.append({"iter": len(entries), "alpha": 1.0, "log_p_one": lv, "tree": tt.to_dict(), "time": 0.0})
                tops.append(math.exp(best) * m)
            w = [x / sum(tops) for x in tops]
            if mode == "file-counts":
                w = [m / sum(mult) for m in mult]
            half = max(1, len(entries) // 2)
            results = {0: {"data": dps, "samples": ["s"], "trace": entries[:half], "chain_num": 0}}
            if entries[half:]:
                results[1] = {"data": dps, "samples": ["s"], "trace": entries[half:], "chain_num": 1}
            captured, undo = _install_io(results)
            try:
                write_consensus_results("in", "table", "tree", consensus_threshold=tau, weight_type=("counts" if mode == "file-counts" else "joint-likelihood"))
            finally:
                undo()
            tree = captured["tree"]
            got = set(_tree_clades(tree))
    except Exception as e:  # noqa
        return True, {"exception": repr(e)}
    sup = {}
    for j, t in enumerate(sel):
        for c in _tree_clades(t):
            sup[c] = sup.get(c, 0.0) + w[j]
    want = {c for c, s in sup.items() if s > tau + 1e-12}
    border = {c for c, s in sup.items() if abs(s - tau) <= 1e-12}
    if (got - border) != (want - border):
        return True, {"got": [sorted(c) for c in got], "want": [sorted(c) for c in want], "tau": tau}
    probs = wellformed.problems(tree, expected_idxs=range(n))
    covered = set().union(*got) if got else set()
    if probs or {dp.idx for dp in tree.outliers} != set(range(n)) - covered:
        return True, {"bad_tree": probs[:2]}
    return False, {"got": [sorted(c) for c in got]}


def evidence(tier, seed, results, canaries):
    agg, funcs, obligations, discharged = harness.aggregate(results)
    real = [r for r in results if not r["job"].get("canary")]
    return {
        "level": "other",
        "coverage": {
            "explanation": "For every multiset of forests within the bound the real consensus code runs with a symbolic threshold tau in [1/2,1] "
                           "(and symbolic weights / per-entry scores); every `support > tau` comparison forks under z3. Per feasible path: z3 "
                           "proves retained clades == {clades with support > tau} on the path's region, the 'Inconsistent set of clades' "
                           "exception path is infeasible (no exception path exists), and the tree built from the consensus graph is a "
                           "well-formed forest whose uncovered data points are outliers (ground).",
            "functions_encoded": funcs, "obligations": obligations, "discharged": discharged,
            "bounds": {"data points": "2-3 (thorough: pairs at 4)", "forests per trace": "1-3 distinct (all singles and pairs; every 5th triple quick / all triples thorough), multiplicity <= 2",
                       "modes": "weighted (symbolic normalised weights), counts, and write_consensus_results on an in-memory two-chain trace with symbolic log_p_one per entry"},
            "outside_bounds": ["supports within rounding of the threshold", "thresholds below 1/2 (outside the property)", "forests with empty clones (no sampler produces them)"],
            "evaluations": sum(r.get("paths_total", 0) for r in real), "distinct_nontrivial": sum(r.get("cases", 0) for r in real if r.get("nontrivial")),
            "rule": "evaluations = feasible paths; distinct non-trivial = distinct multisets of >= 2 forests",
            "samples": [r["sample"] for r in real if r.get("sample")][:6],
            "paths": agg["paths"], "queries": agg["queries"], "solver_s": agg["solver_s"],
            "verdicts": {k: agg[k] for k in ("sat", "unsat", "unknown")}, "canaries": canaries, "stubs": patcher.STUBS +
            ["gzip.GzipFile / pickle.load / get_clone_table / _create_results_output_files / pd.DataFrame inside write_consensus_results -> in-memory recorders"],
        },
        "assumptions": ["tau in [1/2, 1]; weights positive", "majority-clade oracle computed from get_clades of each input forest"],
    }
