"""C15 - trees survive serialisation; trace entries are self-consistent.

Executed symbolically: Tree.to_dict/from_dict, TreeHolder.tree getter/setter, run.append_to_trace/setup_trace/
_run_main_sampler/_run_burnin/update_concentration_value.
Part A (symbolic data): edit; dictionary round trip; edit again - for every pair of edits of the C06 grammar from every
start forest: the restored tree keeps clades, outliers, labels, per-node vectors and densities (z3-equal to a rebuild),
can be edited like the original, and a second restore from the same dictionary is unaffected by editing the first.
Part B: _run_main_sampler with symbolic data and the enumerating RNG: every trace entry restores to a forest over all
data whose log_p_one recomputed under the entry's recorded alpha is z3-equal to the recorded value.
Part C (control flow, ground): recorded iteration numbers for every (iterations, thinning, burn-in, time limit).
Part D (concrete rationals): the same restore through pickle and gzip, which cannot carry solver terms.
"""
import gzip
import io
import itertools
import math
import pickle
from fractions import Fraction

import z3

from vsym import harness, patcher, mutate, edits, wellformed
from vsym.build import sym_dp, float_dp, model_values
from vsym.ctx import CTX, Inconclusive
from vsym.forkrng import ForkRNG
from vsym.scalars import Log, Lin
from vsym.shapes import Forest, all_forests, forest_of_tree
from vsym.vq import V
from checks import c06

META = {"property_id": "C15", "level": "other"}

CANARIES = {
    "restore_shares_data_lists": ("phyclone.tree.tree", "Tree.from_dict",
                                  'new._data.update({k: v.copy() for k, v in tree_dict["node_data"].items()})',
                                  'new._data.update({k: v for k, v in tree_dict["node_data"].items()})'),
    "restore_keeps_index_holes": ("phyclone.tree.tree", "Tree.from_dict", "if len(node_index_holes) > 0:", "if False:"),
    "trace_records_stale_alpha": ("phyclone.run", "_run_main_sampler",
                                  "            if concentration_update:\n                update_concentration_value(conc_sampler, tree, tree_dist)\n\n            if i % thin == 0:\n                append_to_trace(i, timer, trace, tree, tree_dist)\n",
                                  "            if i % thin == 0:\n                append_to_trace(i, timer, trace, tree, tree_dist)\n\n            if concentration_update:\n                update_concentration_value(conc_sampler, tree, tree_dist)\n                trace[-1]['alpha'] = tree_dist.prior.alpha\n"),
}


def apply_canary(name):
    return mutate.mutate(*CANARIES[name])


def _fj(job):
    return Forest([tuple(b) for b in job["blocks"]], [None if p is None else int(p) for p in job["parent"]], job["outliers"])


def jobs(tier, seed):
    out = []
    nmax = 3 if tier == "quick" else 4
    for n in range(1, nmax + 1):
        for f in all_forests(n, outliers=True):
            if n >= 3 and len(f.outliers) > (1 if tier == "quick" else 2):
                continue
            if n == 4 and len(f.blocks) < 3:
                continue
            out.append({"name": f"roundtrip-n{n}-{f.describe()}", "kind": "roundtrip", "blocks": f.blocks, "parent": f.parent, "outliers": f.outliers,
                        "n": n, "total": n + 1, "G": 2, "cost": (len(f.blocks) + 2) ** 2})
    for kern in (("semi",) if tier == "quick" else ("semi", "fully", "bootstrap")):
        for sub in (0, 1):
            out.append({"name": f"trace-{kern}-subtree{sub}-n2-iters1", "kind": "trace", "kernel": kern, "subtree": sub, "n": 2, "iters": 1, "outliers": False, "cost": 300})
        out.append({"name": f"trace-{kern}-n1-iters2-outliers", "kind": "trace", "kernel": kern, "subtree": 0, "n": 1, "iters": 2, "outliers": True, "cost": 50})
    out.append({"name": "control-flow", "kind": "control", "cost": 20})
    out.append({"name": "pickle-gzip", "kind": "pickle", "n": 3, "cost": 30})
    cherry = Forest([[0], [1], [2]], [2, 2, None], [])
    chain = Forest([[0], [1], [2]], [None, 0, 1], [])
    out.append({"name": "canary-restore_shares_data_lists", "canary": "restore_shares_data_lists", "kind": "roundtrip", "blocks": cherry.blocks,
                "parent": cherry.parent, "outliers": [], "n": 3, "total": 4, "G": 2, "cost": 20})
    out.append({"name": "canary-restore_keeps_index_holes", "canary": "restore_keeps_index_holes", "kind": "roundtrip", "blocks": chain.blocks,
                "parent": chain.parent, "outliers": [], "n": 3, "total": 4, "G": 2, "cost": 20})
    out.append({"name": "canary-trace_records_stale_alpha", "canary": "trace_records_stale_alpha", "kind": "trace", "kernel": "semi", "subtree": 0,
                "n": 1, "iters": 2, "outliers": True, "cost": 50})
    return out


# ---- Part A ----------------------------------------------------------------------------------------------------
def _history_A(job, dps, choose):
    """edit e1; d = to_dict; r1 = from_dict(d); edit e2 on r1; r2 = from_dict(d).  Returns (steps, live, labels check)."""
    from phyclone.tree import Tree
    forest = _fj(job)
    grid = (1, job["G"])
    tree = forest.to_tree(dps, grid)
    spares = list(range(job["n"], job["total"]))
    live = []
    steps = []
    ops = [o for o in edits.enumerate_ops(forest, spares) if o[0] not in ("copy", "dict_roundtrip")]
    k = choose(len(ops) + 1)
    if k < len(ops):
        steps.append(edits.describe(ops[k], forest))
        tree, forest, spares = edits.apply_op(ops[k], tree, forest, spares, dps, live)
    d = tree.to_dict()
    r1 = Tree.from_dict(d)
    same_labels = (r1.labels == tree.labels and sorted(map(str, r1.nodes)) == sorted(map(str, tree.nodes)) and r1 == tree and hash(r1) == hash(tree)
                   and r1.node_last_added_to == tree.node_last_added_to)
    f1 = forest
    ops2 = [o for o in edits.enumerate_ops(forest, spares) if o[0] not in ("copy", "dict_roundtrip", "relabel")]
    k2 = choose(len(ops2) + 1)
    if k2 < len(ops2):
        steps.append("restore; " + edits.describe(ops2[k2], forest))
        r1, forest, spares = edits.apply_op(ops2[k2], r1, forest, spares, dps, live)
    live.append((r1, forest))
    # the tree the dictionary was taken from keeps being edited in place (the subtree sampler hands all outliers of its
    # input tree over to the subtree; SMC proposals add to a copy's clone): the recorded dictionary must not follow
    for dp in tree.outliers:
        tree.remove_data_point_from_outliers(dp)
    if tree.roots:
        extra = dps[job["total"]]
        tree.add_data_point_to_node(extra, tree.roots[0])
    r2 = Tree.from_dict(d)                      # particles and trace readers restore the same dictionary many times
    live.append((r2, f1))
    return steps, live, same_labels


def _work_roundtrip(job, res):
    from phyclone.tree import FSCRPDistribution, TreeJointDistribution
    G = job["G"]
    dps = [sym_dp(i, 1, G) for i in range(job["total"] + 1)]
    td = TreeJointDistribution(FSCRPDistribution(Lin(V.var("alpha"))))
    sample = {}

    def run():
        for p in CTX.explore(lambda: _history_A(job, dps, CTX.fork), catch=(Exception,)):
            res["histories"] += 1
            info = {"trace": [c for _, c, _ in p.trace]}
            if p.exc is not None:
                res["obligations"] += 1
                res["cex"].append({"kind": "exception", "detail": repr(p.exc), **info})
                continue
            steps, live, same_labels = p.result
            res["obligations"] += 1
            if same_labels:
                res["discharged"] += 1
            else:
                res["cex"].append({"kind": "labels-changed", "steps": steps, **info})
                continue
            if len(steps) == 2:
                res["nontrivial_histories"] += 1
            for tree, forest in live:
                res["obligations"] += 2
                probs = wellformed.problems(tree, expected_idxs=forest.data())
                if probs:
                    res["cex"].append({"kind": "malformed", "detail": probs[:3], "steps": steps, **info})
                    break
                res["discharged"] += 1
                mism = None
                for what, x, y in c06.compare(tree, forest, dps, td, (1, G)):
                    if what == "shape":
                        mism = (what, None)
                        break
                    ex = x.e if isinstance(x, Log) else V(1)
                    ey = y.e if isinstance(y, Log) else V(1)
                    c = ex.eq(ey)
                    if c is True:
                        continue
                    r, model = CTX.prove(c, use_pc=False)
                    if r == "sat":
                        mism = (what, model)
                        break
                    if r != "unsat":
                        raise Inconclusive("restore identity unknown")
                if mism is None:
                    res["discharged"] += 1
                else:
                    res["cex"].append({"kind": "restored-values-differ", "what": mism[0], "steps": steps,
                                       "values": model_values(mism[1]) if mism[1] is not None else {}, **info})
                    break
            if len(res["cex"]) >= 2:
                return
            if len(steps) == 2 and not sample:
                sample.update({"start": _fj(job).describe(), "history": steps, "trees_compared": len(live)})
    _, funcs = patcher.entered_functions(run)
    res["sample"] = sample or {"start": _fj(job).describe(), "histories": res["histories"]}
    return funcs


# ---- Part B ----------------------------------------------------------------------------------------------------
class FakeConc:
    """Stands in for GammaPriorConcentrationSampler: returns a fresh (fixed-name) positive unknown per call."""

    def __init__(self, sym):
        self.k = 0
        self.sym = sym

    def sample(self, old, K, n):
        self.k += 1
        return Lin(V.var(f"alpha_{self.k}")) if self.sym else [1.7, 0.6, 2.2][self.k % 3]


def _run_trace(job, vals=None):
    import phyclone.run as prun
    from phyclone.tree import FSCRPDistribution, TreeJointDistribution, Tree
    from phyclone.utils import Timer
    sym = vals is None
    n = job["n"]
    dps = []
    for i in range(n):
        if sym:
            dp = sym_dp(i, 1, 2)
            if job["outliers"]:
                po = V.var(f"po{i}")
                CTX.assume(po.lt(V(1)))
                dp.outlier_prob, dp.outlier_prob_not = Log(po), Log(V.var(f"pn{i}"))
        else:
            dp = float_dp(i, 1, 2, vals)
            if job["outliers"]:
                dp.outlier_prob, dp.outlier_prob_not = math.log(0.2), math.log(0.8)
        dps.append(dp)
    alpha0 = Lin(V.var("alpha_0")) if sym else 1.3
    td = TreeJointDistribution(FSCRPDistribution(alpha0))
    rng = ForkRNG()
    outp = 0.2 if job["outliers"] else 0
    kernel = prun.setup_kernel(outp, {"semi": "semi-adapted", "fully": "fully-adapted", "bootstrap": "bootstrap"}[job["kernel"]], rng, td)
    samplers = prun.setup_samplers(kernel, 2, outp, 0.5 if not sym else Fraction(1, 2), rng, td)
    samplers.conc_sampler = FakeConc(sym)
    tree = Tree.get_single_node_tree(dps)
    results = prun._run_main_sampler(True, dps, float("inf"), job["iters"], 1, 1, 10 ** 9, samplers, ["s"], 1, Timer(), tree, td, 0, rng,
                                     job["subtree"])
    return results, dps, td


def _work_trace(job, res):
    import phyclone.run as prun
    from phyclone.tree import FSCRPDistribution, TreeJointDistribution, Tree
    old_print = getattr(prun, "print", None)
    prun.print = lambda *a, **k: None
    sample = {}
    try:
        def one():
            results, dps, td = _run_trace(job)
            return results, dps

        def run():
            for p in CTX.explore(one, before_path=patcher.reset_caches, catch=(Exception,)):
                res["histories"] += 1
                info = {"trace": [c for _, c, _ in p.trace]}
                if p.exc is not None:
                    res["obligations"] += 1
                    res["cex"].append({"kind": "exception", "detail": repr(p.exc), **info})
                    return
                results, dps = p.result
                trace = results["trace"]
                res["obligations"] += 1
                iters = [e["iter"] for e in trace]
                if iters != [0] + list(range(job["iters"])) or results["chain_num"] != 0 or results["data"] is not dps:
                    res["cex"].append({"kind": "trace-shape", "detail": str(iters), **info})
                    return
                res["discharged"] += 1
                for e in trace:
                    res["obligations"] += 2
                    t = Tree.from_dict(e["tree"])
                    probs = wellformed.problems(t, expected_idxs=range(job["n"]))
                    if probs:
                        res["cex"].append({"kind": "entry-malformed", "detail": probs[:2], **info})
                        return
                    res["discharged"] += 1
                    td2 = TreeJointDistribution(FSCRPDistribution(e["alpha"]))
                    want = td2.log_p_one(t)
                    c = e["log_p_one"].e.eq(want.e)
                    r, model = CTX.prove(c, extra=p.pc, use_pc=False)
                    if r == "unsat":
                        res["discharged"] += 1
                    elif r == "sat":
                        res["cex"].append({"kind": "entry-inconsistent", "iter": e["iter"], "values": model_values(model), **info})
                        return
                    else:
                        raise Inconclusive("trace entry identity unknown")
                res["nontrivial_histories"] += 1
                if not sample:
                    sample.update({"config": job["name"], "entries": len(trace), "alphas": [str(e["alpha"]) for e in trace]})
        _, funcs = patcher.entered_functions(run)
    finally:
        if old_print is None:
            del prun.print
        else:
            prun.print = old_print
    sample["paths"] = res["histories"]
    res["sample"] = sample
    return funcs


# ---- Part C ----------------------------------------------------------------------------------------------------
def _work_control(res):
    import phyclone.run as prun
    from phyclone.tree import FSCRPDistribution, TreeJointDistribution, Tree
    from phyclone.utils import Timer

    class Ident:
        def sample_tree(self, t):
            return t

    class Rng:
        def random(self):
            return 0.5
    prun_print = getattr(prun, "print", None)
    prun.print = lambda *a, **k: None
    cases = 0
    try:
        def run():
            nonlocal cases
            dps = [sym_dp(i, 1, 2) for i in range(2)]
            for iters, thin, burnin, max_time, conc in itertools.product(range(0, 6), (1, 2, 3), (0, 1, 2), (0, float("inf")), (False, True)):
                cases += 1
                td = TreeJointDistribution(FSCRPDistribution(Lin(V.var("alpha_0"))))
                sh = prun.SamplersHolder(Ident(), Ident(), FakeConc(True), Ident(), Ident(), Ident())
                timer = Timer()
                tree = Tree.get_single_node_tree(dps)
                tree = prun._run_burnin(burnin, max_time, 1, 1, 10 ** 9, sh, timer, tree, td, 0)
                r = prun._run_main_sampler(conc, dps, max_time, iters, 1, 1, 10 ** 9, sh, ["s"], thin, timer, tree, td, 0, Rng(), 0.0)
                got = [e["iter"] for e in r["trace"]]
                stop = 1 if max_time == 0 else iters
                want = [0] + [i for i in range(min(iters, stop)) if i % thin == 0]
                res["obligations"] += 1
                if got == want:
                    res["discharged"] += 1
                else:
                    res["cex"].append({"kind": "iteration-numbers", "detail": f"iters={iters} thin={thin} burnin={burnin} max_time={max_time}: {got} != {want}",
                                       "cfg": [iters, thin, burnin, str(max_time), conc]})
                    return
        _, funcs = patcher.entered_functions(run)
    finally:
        if prun_print is None:
            del prun.print
        else:
            prun.print = prun_print
    res["histories"] = cases
    res["nontrivial_histories"] = cases
    res["sample"] = {"control_flow_configurations": cases, "example": "iters=5 thin=2 burnin=1 -> recorded iterations [0, 0, 2, 4]"}
    return funcs


# ---- Part D (concrete) -------------------------------------------------------------------------------------------
def _pickle_roundtrip(n, collect):
    """Runs on plain floats (also inside the patched process: arrays stay concrete there)."""
    from phyclone.tree import FSCRPDistribution, TreeJointDistribution, Tree
    vals = {"x0_0_0": "3/10", "x0_0_1": "2", "x1_0_0": "3/2", "x1_0_1": "1/5", "x2_0_0": "1/2", "x2_0_1": "5/4", "x3_0_0": "7/5", "x3_0_1": "2/3"}
    dps = [float_dp(i, 1, 2, vals) for i in range(n + 1)]
    td = TreeJointDistribution(FSCRPDistribution(0.7))
    cnt = 0
    for f in all_forests(n, outliers=True):
        if len(f.outliers) > 1:
            continue
        spares = [n]
        ops = [o for o in edits.enumerate_ops(f, spares) if o[0] in ("prune_regraft", "subtree_roundtrip", "move", "new_root")]
        for op in [None] + ops:
            tree = f.to_tree(dps, (1, 2))
            forest, sp, live = f, spares, []
            if op is not None:
                tree, forest, sp = edits.apply_op(op, tree, forest, sp, dps, live)
            buf = io.BytesIO()
            with gzip.GzipFile(fileobj=buf, mode="wb") as fh:
                pickle.dump({0: {"trace": [{"tree": tree.to_dict()}]}}, fh)
            buf.seek(0)
            with gzip.GzipFile(fileobj=buf, mode="rb") as fh:
                d = pickle.load(fh)[0]["trace"][0]["tree"]
            r = Tree.from_dict(pickle.loads(pickle.dumps(d)))
            cnt += 1
            probs = wellformed.problems(r, expected_idxs=forest.data())
            ref = forest.to_tree(dps, (1, 2))
            bad = bool(probs) or r != tree or abs(float(td.log_p_one(r)) - float(td.log_p_one(ref))) > 1e-9 \
                or abs(float(td.log_p(r)) - float(td.log_p(ref))) > 1e-9 or r.labels != tree.labels
            if bad:
                collect.append({"kind": "pickle-roundtrip", "forest": f.describe(), "op": str(op), "detail": str(probs[:2])})
                return cnt
    return cnt


def work(job):
    res = {"obligations": 0, "discharged": 0, "cex": [], "nontrivial": True, "histories": 0, "nontrivial_histories": 0}
    CTX.new_session()
    CTX.sentinel_mode = "assume"
    if job["kind"] == "roundtrip":
        funcs = _work_roundtrip(job, res)
    elif job["kind"] == "trace":
        funcs = _work_trace(job, res)
    elif job["kind"] == "control":
        funcs = _work_control(res)
    else:
        # concrete floats must not meet the symbolic facade: this part runs in a fresh, unpatched interpreter
        import json, os, subprocess, sys
        root = os.path.dirname(os.path.dirname(os.path.abspath(__file__)))
        code = ("import sys, json; sys.path.insert(0, %r); import checks.c15 as m; bad = []; n = m._pickle_roundtrip(%d, bad); "
                "print(json.dumps([n, bad]))" % (root, job["n"]))
        pr = subprocess.run([sys.executable, "-c", code], cwd=root, capture_output=True, text=True, timeout=1800)
        if pr.returncode != 0:
            raise Inconclusive("pickle part failed to run: " + pr.stderr[-500:])
        cnt, bad = json.loads(pr.stdout.strip().splitlines()[-1])
        funcs = ["phyclone.tree.tree:Tree.to_dict", "phyclone.tree.tree:Tree.from_dict"]
        res["histories"] = res["nontrivial_histories"] = cnt
        res["obligations"] = cnt
        res["discharged"] = cnt - len(bad)
        res["cex"] = bad
        res["sample"] = {"pickle_gzip_roundtrips_on_concrete_rational_data": cnt}
    res["functions"] = funcs
    res["twin_ok"] = res["histories"] > 0
    res["status"] = "cex" if res["cex"] else "ok"
    for c in res["cex"]:
        c.update({"finding_key": f"C15:{c['kind']}", "job": {k: job.get(k) for k in ("kind", "blocks", "parent", "outliers", "n", "total", "G", "kernel", "subtree", "iters")}})
    res["cex"] = res["cex"][:1]
    return res


def replay(case):
    from phyclone.tree import FSCRPDistribution, TreeJointDistribution, Tree
    job = case["job"]
    kind = job["kind"]
    if kind == "pickle":
        bad = []
        _pickle_roundtrip(job["n"], bad)
        return bool(bad), bad[:1]
    if kind == "control":
        res = {"obligations": 0, "discharged": 0, "cex": []}
        # identical ground computation on the unpatched code (symbolic data is irrelevant to control flow): use floats
        import phyclone.run as prun
        from phyclone.utils import Timer
        iters, thin, burnin, max_time, conc = case["cfg"]
        max_time = float(max_time)

        class Ident:
            def sample_tree(self, t):
                return t

        class Rng:
            def random(self):
                return 0.5
        prun.print = lambda *a, **k: None
        dps = [float_dp(i, 1, 2, {}) for i in range(2)]
        td = TreeJointDistribution(FSCRPDistribution(1.0))
        sh = prun.SamplersHolder(Ident(), Ident(), FakeConc(False), Ident(), Ident(), Ident())
        timer = Timer()
        tree = prun._run_burnin(burnin, max_time, 1, 1, 10 ** 9, sh, timer, Tree.get_single_node_tree(dps), td, 0)
        r = prun._run_main_sampler(conc, dps, max_time, iters, 1, 1, 10 ** 9, sh, ["s"], thin, timer, tree, td, 0, Rng(), 0.0)
        got = [e["iter"] for e in r["trace"]]
        stop = 1 if max_time == 0 else iters
        want = [0] + [i for i in range(min(iters, stop)) if i % thin == 0]
        return got != want, {"got": got, "want": want}
    vals = case.get("values", {})
    it = iter(case.get("trace", []))
    if kind == "roundtrip":
        dps = [float_dp(i, 1, job["G"], vals) for i in range(job["total"] + 1)]
        td = TreeJointDistribution(FSCRPDistribution(float(Fraction(vals.get("alpha", "7/10")))))
        try:
            steps, live, same_labels = _history_A(job, dps, lambda n: next(it, n - 1))
        except Exception as e:  # noqa
            return True, {"exception": repr(e)}
        if not same_labels:
            return True, {"labels": False, "steps": steps}
        worst = 0.0
        for tree, forest in live:
            probs = wellformed.problems(tree, expected_idxs=forest.data())
            if probs:
                return True, {"malformed": probs[:2], "steps": steps}
            for what, x, y in c06.compare(tree, forest, dps, td, (1, job["G"])):
                if what == "shape":
                    return True, {"shape": True}
                worst = max(worst, abs(float(x) - float(y)))
        return worst > 1e-7, {"max_abs_log_diff": worst, "steps": steps}
    # trace
    import phyclone.run as prun
    prun.print = lambda *a, **k: None
    CTX.prefix = [("c", c, None) for c in case.get("trace", [])]
    CTX.trace, CTX.pc, CTX.probs, CTX.pending = [], [], [], []
    try:
        results, dps, td = _run_trace(job, vals=vals)
    except Exception as e:  # noqa
        return True, {"exception": repr(e)}
    finally:
        CTX.prefix = []
    worst = 0.0
    for e in results["trace"]:
        t = Tree.from_dict(e["tree"])
        if wellformed.problems(t, expected_idxs=range(job["n"])):
            return True, {"malformed": True}
        td2 = TreeJointDistribution(FSCRPDistribution(e["alpha"]))
        worst = max(worst, abs(float(td2.log_p_one(t)) - float(e["log_p_one"])))
    iters = [e["iter"] for e in results["trace"]]
    return (worst > 1e-7 or iters != [0] + list(range(job["iters"]))), {"max_abs_diff": worst, "iters": iters}


def evidence(tier, seed, results, canaries):
    agg, funcs, obligations, discharged = harness.aggregate(results)
    real = [r for r in results if not r["job"].get("canary")]
    return {
        "level": "other",
        "coverage": {
            "explanation": "Part A: every (edit, dictionary round trip, edit) history of the C06 grammar from every start forest, symbolic data: "
                           "z3-equality of every node vector and both densities with a rebuild, labels/names preserved, second restore "
                           "from the same dictionary unaffected. Part B: the real _run_main_sampler under the enumerating RNG with symbolic "
                           "data and a symbolic new concentration per update: every entry restores to a well-formed forest over all data "
                           "and log_p_one recomputed under the recorded alpha equals the recorded value (z3). Part C: recorded iteration "
                           "numbers for 540 (iterations, thinning, burn-in, time limit, update) configurations (ground). Part D: pickle+gzip "
                           "round trips on concrete rational data (solver terms cannot be pickled).",
            "functions_encoded": funcs, "obligations": obligations, "discharged": discharged,
            "bounds": {"A": "start forests on 1-3 points (<= 1 outlier at n=3; thorough: 4 points), one spare point, grid 2", "B": "n=2, N=2, 1 iteration, subtree probability {0,1}; n=1 with outliers, 2 iterations (quick: semi-adapted; thorough: all proposals)",
                       "C": "iterations 0-5, thinning 1-3, burn-in 0-2, time limit {0, inf}"},
            "outside_bounds": ["multi-process chains", "longer runs", "floating point"],
            "evaluations": sum(r.get("histories", 0) for r in real), "distinct_nontrivial": sum(r.get("nontrivial_histories", 0) for r in real),
            "rule": "evaluations = histories / sampler paths / configurations executed; non-trivial = two-edit histories, complete sampler paths, every control-flow configuration",
            "samples": [r["sample"] for r in real if r.get("sample")][:8],
            "paths": agg["paths"], "queries": agg["queries"], "solver_s": agg["solver_s"],
            "verdicts": {k: agg[k] for k in ("sat", "unsat", "unknown")}, "canaries": canaries,
            "stubs": patcher.STUBS + ["GammaPriorConcentrationSampler -> returns a fresh symbolic alpha per call (Part B)", "print -> no-op"],
        },
        "assumptions": ["real arithmetic", "zero-sentinel paths cut by assumption (C03)", "pickle/gzip layers exercised on concrete data only"],
    }
