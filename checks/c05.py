"""C05 - emission likelihood grids implement the PyClone mutation model.

Executed symbolically (numba bodies through py_func, a plain-Python stand-in for the SampleDataPoint jitclass):
get_major_cn_prior, DataPoint.to_likelihood_grid, _compute_liklihood_grid, log_pyclone_binomial_pdf,
log_pyclone_beta_binomial_pdf, log_binomial_pdf/_likelihood/_coefficient, log_beta_binomial_pdf/_likelihood,
log_beta, log_factorial, log_sum_exp, log_normalize, _create_clustered_data_arr, compute_outlier_prob.
Symbolic: tumour content t in (0,1], error rate eps in (0,1/2), CCF f in [0,1] (any real - covers every grid),
precision s > 0, outlier probability.  Counts and copy numbers are exhaustively split concrete choice points.
"""
import itertools
import math
import types
from fractions import Fraction

import z3

from vsym import harness, patcher, mutate
from vsym.build import model_values
from vsym.ctx import CTX, Inconclusive
from vsym.scalars import Log, Lin
from vsym.spec import pyclone as spec
from vsym.vq import V

META = {"property_id": "C05", "level": "other"}

CANARIES = {
    "variant_population_weight": ("phyclone.data.pyclone", "log_pyclone_binomial_pdf", "population_prior[1] = t * (1 - f)", "population_prior[1] = t * (1 - f) * (1 - f)"),
    "beta_binomial_b_parameter": ("phyclone.data.pyclone", "log_pyclone_beta_binomial_pdf", "b = s - a", "b = s"),
    "genotype_prior_skips_last": ("phyclone.data.pyclone", "get_major_cn_prior", "for x in range(1, major_cn + 1):", "for x in range(1, max(2, major_cn)):"),
    "cluster_outlier_term_ignores_size": ("phyclone.data.pyclone", "compute_outlier_prob", "res = np.log(outlier_prob) * cluster_size", "res = np.log(outlier_prob)"),
}


def apply_canary(name):
    return mutate.mutate(*CANARIES[name])


class SDP:
    """Plain-Python stand-in for the numba jitclass (same six fields)."""

    def __init__(self, a, b, cn, mu, log_pi, t):
        self.a, self.b, self.cn, self.mu, self.log_pi, self.t = a, b, cn, mu, log_pi, t


def install_standins():
    import phyclone.data.pyclone as pc
    old = (pc.SampleDataPoint, pc.numba)
    pc.SampleDataPoint = SDP
    pc.numba = types.SimpleNamespace(typed=types.SimpleNamespace(List=list))

    def undo():
        pc.SampleDataPoint, pc.numba = old
    return undo


def jobs(tier, seed):
    out = []
    maxmaj, maxdepth = (2, 3) if tier == "quick" else (3, 5)
    for major in range(1, maxmaj + 1):
        for minor in range(0, major + 1):
            for normal in (1, 2):
                for density in ("binomial", "beta-binomial"):
                    out.append({"name": f"pmf-maj{major}-min{minor}-norm{normal}-{density}", "kind": "pmf", "major": major, "minor": minor, "normal": normal,
                                "density": density, "maxdepth": maxdepth if density == "binomial" else maxdepth - 1, "cost": major * maxdepth ** 2})
    out.append({"name": "copy-number-validation", "kind": "cnv", "cost": 1})
    out.append({"name": "grid-and-clusters", "kind": "grid", "cost": 10})
    out.append({"name": "loader-table-to-data-points", "kind": "loader", "cost": 20})
    out.append({"name": "load_data-cluster-files", "kind": "loadfile", "cost": 5})
    base = {"kind": "pmf", "major": 2, "minor": 1, "normal": 2, "maxdepth": 2}
    out.append({"name": "canary-variant_population_weight", "canary": "variant_population_weight", **base, "density": "binomial", "cost": 5})
    out.append({"name": "canary-beta_binomial_b_parameter", "canary": "beta_binomial_b_parameter", **base, "density": "beta-binomial", "cost": 5})
    out.append({"name": "canary-genotype_prior_skips_last", "canary": "genotype_prior_skips_last", **base, "density": "binomial", "cost": 5})
    out.append({"name": "canary-cluster_outlier_term_ignores_size", "canary": "cluster_outlier_term_ignores_size", "kind": "grid", "cost": 5})
    return out


def _symbols():
    t, eps, f, s = V.var("t"), V.var("eps"), V.var("f", pos=False), V.var("s")
    CTX.assume(t.le(V(1)))
    CTX.assume(eps.lt(V(Fraction(1, 2))))
    CTX.assume(f.ge(V(0)))
    CTX.assume(f.le(V(1)))
    return t, eps, f, s


def _vmin(a, b):
    return a if bool(Lin(a) <= Lin(b)) else b


def model_terms(major, minor, normal, n, k, t, f, eps, s, density):
    """(numerator, denominator) pairs of the mixture components, uniform genotype prior"""
    comps = []
    gs = spec.genotypes(major, minor, normal)
    for cn, x in gs:
        num, den = spec.expected_vaf(cn, x, t, f, eps, _vmin, V(1))
        if density == "binomial":
            comps.append(spec.pmf_binomial(n, k, num, den, V(1)))
        else:
            comps.append(spec.pmf_beta_binomial(n, k, num, den, s, V(1)))
    return comps, len(gs)


def _mix(comps, ng):
    tot = V(0)
    for r, d in comps:
        if not CTX.prove_positive(d):
            raise Inconclusive("oracle denominator not provably positive")
        tot = tot + r / d
    return tot / ng


def _claim(c):
    return z3.BoolVal(c) if isinstance(c, bool) else c


def _work_pmf(job, res):
    import phyclone.data.pyclone as pc
    major, minor, normal, density = job["major"], job["minor"], job["normal"], job["density"]
    t, eps, f, s = _symbols()
    fn = pc.log_pyclone_binomial_pdf if density == "binomial" else pc.log_pyclone_beta_binomial_pdf
    sample = {}

    def one(n):
        claims = []
        tot = V(0)
        for k in range(0, n + 1):
            cn, mu, log_pi = pc.get_major_cn_prior(major, minor, normal, error_rate=Lin(eps))
            d = SDP(n - k, k, cn, mu, log_pi, Lin(t))          # a = reference count, b = alternate count
            got = fn(d, Lin(f)) if density == "binomial" else fn(d, Lin(f), Lin(s))
            comps, ng = model_terms(major, minor, normal, n, k, t, f, eps, s, density)
            e = got.e if isinstance(got, Log) else V(1) if got == 0 else None
            claims.append(("pmf", k, _claim(e.eq(_mix(comps, ng)))))     # comparisons are formed while the path's sign knowledge is valid
            tot = tot + e
        claims.append(("not-normalised", -1, _claim(tot.eq(V(1)))))
        return claims

    def run():
        for n in range(0, job["maxdepth"] + 1):
            paths = CTX.explore(lambda: one(n), catch=(Exception,))
            res["paths_total"] += len(paths)
            for p in paths:
                if p.exc is not None:
                    res["obligations"] += 1
                    r, model = CTX.check(p.pc, want_model=True)
                    res["cex"].append({"kind": "exception", "detail": repr(p.exc), "values": model_values(model) if model else {}, "n": n, "k": -1})
                    return
                for kind, k, claim in p.result:
                    res["obligations"] += 1
                    r, model = CTX.prove(claim, extra=p.pc, use_pc=False)
                    if r == "unsat":
                        res["discharged"] += 1
                    elif r == "sat":
                        res["cex"].append({"kind": kind, "n": n, "k": k, "values": model_values(model)})
                        return
                    else:
                        raise Inconclusive(f"{kind} identity unknown n={n} k={k}")
            if n == job["maxdepth"]:
                sample.update({"copy_numbers": [major, minor, normal], "density": density, "depths": f"0..{n}", "regions_of_eps": len(paths)})
    _, funcs = patcher.entered_functions(run)
    res["sample"] = sample
    return funcs


def _work_cnv(res):
    import phyclone.data.pyclone as pc
    from phyclone.utils.exceptions import MajorCopyNumberError
    eps = V.var("eps")
    CTX.assume(eps.lt(V(Fraction(1, 2))))

    def run():
        for major, minor, normal in itertools.product(range(0, 4), range(0, 4), (1, 2)):
            if major == 0 and minor == 0:
                continue
            res["obligations"] += 1
            raised = False
            try:
                CTX.explore(lambda: pc.get_major_cn_prior(major, minor, normal, error_rate=Lin(eps)))
            except MajorCopyNumberError:
                raised = True
            if raised == (major < minor):
                res["discharged"] += 1
            else:
                res["cex"].append({"kind": "copy-number-validation", "major": major, "minor": minor, "normal": normal, "values": {}})
                return
    _, funcs = patcher.entered_functions(run)
    res["paths_total"] += 1
    res["sample"] = {"copy_number_grid": "major, minor in 0..3, normal in {1,2}: raises exactly when major < minor"}
    return funcs


def _work_grid(res):
    """to_likelihood_grid rows/columns, cluster aggregation, outlier terms"""
    import phyclone.data.pyclone as pc
    import phyclone.data.base as pb
    t, eps, f, s = _symbols()
    p = V.var("p")
    CTX.assume(p.lt(V(1)))
    G = 3
    counts = {"mA": [(2, 1, (2, 1, 2)), (0, 2, (1, 1, 2))], "mB": [(1, 1, (1, 0, 2)), (3, 0, (2, 0, 1))], "mC": [(0, 0, (1, 1, 2)), (1, 2, (2, 2, 2))]}
    samples = ["s1", "s2"]

    def one(density):
        data = {}
        for m, rows in counts.items():
            sdps = []
            for ref, alt, (maj, mi, no) in rows:
                cn, mu, log_pi = pc.get_major_cn_prior(maj, mi, no, error_rate=Lin(eps))
                sdps.append(SDP(ref, alt, cn, mu, log_pi, Lin(t)))
            data[m] = pc.DataPoint(samples, sdps)
        grids = {m: d.to_likelihood_grid(density, G, precision=Lin(s)) for m, d in data.items()}
        clustered = pc._create_clustered_data_arr({7: Lin(p), 9: Lin(p)}, {7: 2, 9: 1}, {"mA": 7, "mB": 9, "mC": 7}, density, G, Lin(s), data)
        single = pc.compute_outlier_prob(Lin(p), 1)
        zero = pc.compute_outlier_prob(0, 3)
        claims = []

        def must(claim, what):
            claims.append((what, _claim(claim)))
        # grid entry [sample, i] is the model at ccf = i/(G-1)
        for m, rows in counts.items():
            for si, (ref, alt, (maj, mi, no)) in enumerate(rows):
                for i in range(G):
                    comps, ng = model_terms(maj, mi, no, ref + alt, alt, t, V(Fraction(i, G - 1)), eps, s, density)
                    e = grids[m][si, i]
                    e = e.e if isinstance(e, Log) else V(1)
                    must(e.eq(_mix(comps, ng)), "grid-entry")
        # clustered data points: sorted cluster ids 7, 9; value = sum of member grids; outlier terms scale with size
        must(len(clustered) == 2 and [d.name for d in clustered] == ["7", "9"] and [d.idx for d in clustered] == [0, 1], "cluster-order")
        if len(clustered) == 2:
            for dp, members, size in ((clustered[0], ["mA", "mC"], 2), (clustered[1], ["mB"], 1)):
                for si in range(2):
                    for i in range(G):
                        want = V(1)
                        for m in members:
                            want = want * grids[m][si, i].e
                        must(dp.value[si, i].e.eq(want), "cluster-sum")
                must(dp.outlier_prob.e.eq(p.pow(size)), "cluster-outlier-term")
                must(dp.outlier_prob_not.e.eq((V(1) - p).pow(size)), "cluster-not-outlier-term")
        must(single[0].e.eq(p), "outlier-term")
        must(zero[0] == 0 and (zero[1] == 0 or (isinstance(zero[1], Log) and zero[1].e.key() == V(1).key())), "outlier-off-sentinel")
        return claims

    def run():
        for density in ("binomial", "beta-binomial"):
            for pth in CTX.explore(lambda: one(density), catch=(Exception,)):
                res["paths_total"] += 1
                if pth.exc is not None:
                    res["obligations"] += 1
                    res["cex"].append({"kind": "exception", "detail": repr(pth.exc), "values": {}})
                    return
                for what, claim in pth.result:
                    res["obligations"] += 1
                    r, model = CTX.prove(claim, extra=pth.pc, use_pc=False)
                    if r == "unsat":
                        res["discharged"] += 1
                    elif r == "sat":
                        res["cex"].append({"kind": what, "values": model_values(model) if model else {}})
                        return
                    else:
                        raise Inconclusive(what)
    _, funcs = patcher.entered_functions(run)
    res["sample"] = {"grid": "3 mutations x 2 samples x 3 grid points, both densities; 2 clusters (sizes 2 and 1)"}
    return funcs


def _work_loader(res):
    """_create_loaded_pyclone_data_dict on a real DataFrame whose error-rate and tumour-content columns hold solver
    variables (one per row): every row's grid must be the model under that row's own values, whatever the row order."""
    import pandas as pd
    import phyclone.data.pyclone as pc
    _, _, f, s = _symbols()
    rows = []
    syms = {}
    spec_rows = [("mB", "s2", 1, 2, 2, 1, 2), ("mA", "s1", 2, 1, 2, 1, 2), ("mB", "s1", 0, 3, 2, 1, 2), ("mA", "s2", 1, 1, 2, 1, 2)]   # shuffled on purpose
    for m, smp, ref, alt, maj, mi, no in spec_rows:
        e, t = V.var(f"eps_{m}_{smp}"), V.var(f"t_{m}_{smp}")
        CTX.assume(e.lt(V(Fraction(1, 2))))
        CTX.assume(t.le(V(1)))
        syms[(m, smp)] = (e, t, ref, alt, maj, mi, no)
        rows.append({"mutation_id": m, "sample_id": smp, "ref_counts": ref, "alt_counts": alt, "major_cn": maj, "minor_cn": mi, "normal_cn": no,
                     "error_rate": Lin(e), "tumour_content": Lin(t)})
    samples = ["s1", "s2"]
    G = 3

    def one(density):
        df = pd.DataFrame(rows)
        data = pc._create_loaded_pyclone_data_dict(df, samples)
        claims = [("loader-order", _claim(list(data.keys()) == ["mA", "mB"]))]
        for m, dp in data.items():
            grid = dp.to_likelihood_grid(density, G, precision=Lin(s))
            for si, smp in enumerate(samples):
                e, t, ref, alt, maj, mi, no = syms[(m, smp)]
                for i in range(G):
                    comps, ng = model_terms(maj, mi, no, ref + alt, alt, t, V(Fraction(i, G - 1)), e, s, density)
                    g = grid[si, i]
                    g = g.e if isinstance(g, Log) else V(1)
                    claims.append(("loader-grid", _claim(g.eq(_mix(comps, ng)))))
        return claims

    def run():
        for density in ("binomial", "beta-binomial"):
            for pth in CTX.explore(lambda: one(density), catch=(Exception,)):
                res["paths_total"] += 1
                if pth.exc is not None:
                    res["obligations"] += 1
                    res["cex"].append({"kind": "exception", "detail": repr(pth.exc), "values": {}})
                    return
                for what, claim in pth.result:
                    res["obligations"] += 1
                    r, model = CTX.prove(claim, extra=pth.pc, use_pc=False)
                    if r == "unsat":
                        res["discharged"] += 1
                    elif r == "sat":
                        res["cex"].append({"kind": what, "values": model_values(model) if model else {}})
                        return
                    else:
                        raise Inconclusive(what)
    _, funcs = patcher.entered_functions(run)
    res["sample"] = {"loader": "2 mutations x 2 samples in shuffled row order, same copy-number state, one symbolic error rate and tumour content per row"}
    return funcs


def loadfile_problems():
    """Concrete part (pandas reads real files, nothing symbolic can cross): load_data with a two-column and a long-format
    (per-sample rows, extra columns - as PyClone-VI writes it) cluster file; cluster grids must be the sums of the members'
    unclustered grids and the outlier terms size * log p, size * log(1-p).  Runs in an unpatched interpreter."""
    import os
    import tempfile
    import numpy as np
    from phyclone.data.pyclone import load_data
    muts = {"m1": (7, 1), "m2": (9, 1), "m3": (7, 1), "m4": (9, 2), "m5": (7, 0)}     # mutation -> (cluster, major offset)
    samples = ["sA", "sB"]
    rows = ["\t".join(["mutation_id", "sample_id", "ref_counts", "alt_counts", "major_cn", "minor_cn", "normal_cn", "tumour_content", "error_rate"])]
    k = 0
    for m, (cl, off) in muts.items():
        for smp in samples:
            k += 1
            rows.append("\t".join(map(str, [m, smp, 20 + 3 * k, 5 + k, 1 + off, 1 if off else 0, 2, 0.8 if smp == "sA" else 0.6, 0.001 * (1 + k % 3)])))
    problems = []
    p = 0.01
    with tempfile.TemporaryDirectory() as td:
        data_file = os.path.join(td, "in.tsv")
        open(data_file, "w").write("\n".join(rows) + "\n")
        two_col = os.path.join(td, "cl2.tsv")
        open(two_col, "w").write("mutation_id\tcluster_id\n" + "".join(f"{m}\t{cl}\n" for m, (cl, _) in muts.items()))
        long_fmt = os.path.join(td, "cllong.tsv")
        open(long_fmt, "w").write("mutation_id\tsample_id\tcluster_id\tcellular_prevalence\n" +
                                  "".join(f"{m}\t{smp}\t{cl}\t{0.1 * (i + 1)}\n" for m, (cl, _) in muts.items() for i, smp in enumerate(samples)))
        rng = np.random.default_rng(0)
        for density in ("binomial", "beta-binomial"):
            single, smp = load_data(data_file, rng, 0.0001, 0.4, False, cluster_file=None, density=density, grid_size=5, outlier_prob=p, precision=400)
            if smp != samples or [d.name for d in single] != sorted(muts):
                problems.append(f"unclustered order {smp} {[d.name for d in single]}")
            by_name = {d.name: d for d in single}
            for d in single:
                if abs(d.outlier_prob - np.log(p)) > 1e-12 or abs(d.outlier_prob_not - np.log1p(-p)) > 1e-12:
                    problems.append(f"unclustered outlier terms of {d.name}")
            for label, cf in (("two-column", two_col), ("long-format", long_fmt)):
                data, _ = load_data(data_file, rng, 0.0001, 0.4, False, cluster_file=cf, density=density, grid_size=5, outlier_prob=p, precision=400)
                if [d.name for d in data] != ["7", "9"] or [d.idx for d in data] != [0, 1]:
                    problems.append(f"{label}: cluster order {[d.name for d in data]}")
                    continue
                for d, cl in zip(data, (7, 9)):
                    members = [m for m, (c, _) in muts.items() if c == cl]
                    want = sum(by_name[m].value for m in members)
                    if np.abs(d.value - want).max() > 1e-9:
                        problems.append(f"{label} {density}: grid of cluster {cl} is not the sum of its members'")
                    if abs(d.outlier_prob - len(members) * np.log(p)) > 1e-9 or abs(d.outlier_prob_not - len(members) * np.log1p(-p)) > 1e-9:
                        problems.append(f"{label} {density}: outlier terms of cluster {cl} are {d.outlier_prob:.4f}, {d.outlier_prob_not:.4f}; size {len(members)}")
    return problems


def _work_loadfile(res):
    import json, os, subprocess, sys
    root = os.path.dirname(os.path.dirname(os.path.abspath(__file__)))
    code = "import sys, json; sys.path.insert(0, %r); import checks.c05 as m; print(json.dumps(m.loadfile_problems()))" % root
    pr = subprocess.run([sys.executable, "-c", code], cwd=root, capture_output=True, text=True, timeout=1800)
    if pr.returncode != 0:
        raise Inconclusive("load_data part failed to run: " + pr.stderr[-800:])
    problems = json.loads(pr.stdout.strip().splitlines()[-1])
    res["obligations"] += 1
    res["paths_total"] += 1
    if problems:
        res["cex"].append({"kind": "load_data-clusters", "detail": problems[:3], "values": {}})
    else:
        res["discharged"] += 1
    res["sample"] = {"load_data": "5 mutations x 2 samples from real TSV files, two-column and long-format cluster files, both densities (concrete)"}
    return ["phyclone.data.pyclone:load_data", "phyclone.data.pyclone:_setup_cluster_df", "phyclone.data.pyclone:_create_clustered_data_arr"]


def work(job):
    res = {"obligations": 0, "discharged": 0, "cex": [], "nontrivial": True, "paths_total": 0}
    CTX.new_session()
    undo = install_standins()
    try:
        if job["kind"] == "pmf":
            funcs = _work_pmf(job, res)
        elif job["kind"] == "cnv":
            funcs = _work_cnv(res)
        elif job["kind"] == "loader":
            funcs = _work_loader(res)
        elif job["kind"] == "loadfile":
            funcs = _work_loadfile(res)
        else:
            funcs = _work_grid(res)
    finally:
        undo()
    res["functions"] = funcs
    res["twin_ok"] = res["obligations"] > 0
    res["status"] = "cex" if res["cex"] else "ok"
    for c in res["cex"]:
        c.update({"finding_key": "C05:" + c["kind"], "job": {k: job.get(k) for k in ("kind", "major", "minor", "normal", "density", "maxdepth")}})
    res["cex"] = res["cex"][:1]
    return res


def replay(case):
    """Concrete twin on the unpatched (numba-compiled) code against scipy-free closed forms in floats."""
    import numpy as np
    import phyclone.data.pyclone as pc
    job = case["job"]
    vals = {k: float(Fraction(v)) for k, v in case.get("values", {}).items()}
    t, eps, f, s = vals.get("t", 0.8), vals.get("eps", 0.01), vals.get("f", 0.4), vals.get("s", 50.0)
    if job["kind"] == "cnv":
        from phyclone.utils.exceptions import MajorCopyNumberError
        try:
            pc.get_major_cn_prior(case["major"], case["minor"], case["normal"], error_rate=eps)
            raised = False
        except MajorCopyNumberError:
            raised = True
        return raised != (case["major"] < case["minor"]), {"raised": raised}

    def model(maj, mi, no, n, k, f, density):
        tot = 0.0
        gs = spec.genotypes(maj, mi, no)
        for cn, x in gs:
            num, den = spec.expected_vaf(cn, x, t, f, eps, min, 1.0)
            r, d = (spec.pmf_binomial(n, k, num, den, 1.0) if density == "binomial" else spec.pmf_beta_binomial(n, k, num, den, s, 1.0))
            tot += r / d
        return tot / len(gs)
    if job["kind"] == "pmf":
        maj, mi, no, density = job["major"], job["minor"], job["normal"], job["density"]
        worst = 0.0
        for n in range(0, job["maxdepth"] + 1):
            tot = 0.0
            for k in range(0, n + 1):
                cn, mu, log_pi = pc.get_major_cn_prior(maj, mi, no, error_rate=eps)
                d = pc.SampleDataPoint(n - k, k, cn, mu, log_pi, t)
                got = math.exp(pc.log_pyclone_binomial_pdf(d, f) if density == "binomial" else pc.log_pyclone_beta_binomial_pdf(d, f, s))
                worst = max(worst, abs(got - model(maj, mi, no, n, k, f, density)))
                tot += got
            worst = max(worst, abs(tot - 1.0))
        return worst > 1e-9, {"max_abs_diff": worst}
    if job["kind"] == "loadfile":
        pr = loadfile_problems()
        return bool(pr), pr[:3]
    if job["kind"] == "loader":
        import pandas as pd
        spec_rows = [("mB", "s2", 1, 2, 2, 1, 2), ("mA", "s1", 2, 1, 2, 1, 2), ("mB", "s1", 0, 3, 2, 1, 2), ("mA", "s2", 1, 1, 2, 1, 2)]
        rows, par = [], {}
        for j, (m, smp, ref, alt, maj, mi, no) in enumerate(spec_rows):
            e = vals.get(f"eps_{m}_{smp}", 0.01 * (j + 1))
            tt = vals.get(f"t_{m}_{smp}", 0.5 + 0.1 * j)
            par[(m, smp)] = (e, tt, ref, alt, maj, mi, no)
            rows.append({"mutation_id": m, "sample_id": smp, "ref_counts": ref, "alt_counts": alt, "major_cn": maj, "minor_cn": mi, "normal_cn": no,
                         "error_rate": e, "tumour_content": tt})
        worst = 0.0
        for density in ("binomial", "beta-binomial"):
            data = pc._create_loaded_pyclone_data_dict(pd.DataFrame(rows), ["s1", "s2"])
            if list(data.keys()) != ["mA", "mB"]:
                return True, {"order": list(data.keys())}
            for m, dp in data.items():
                grid = dp.to_likelihood_grid(density, 3, precision=s)
                for si, smp in enumerate(["s1", "s2"]):
                    e, tt, ref, alt, maj, mi, no = par[(m, smp)]
                    for i in range(3):
                        tot = 0.0
                        gs = spec.genotypes(maj, mi, no)
                        for cn, x in gs:
                            num, den = spec.expected_vaf(cn, x, tt, i / 2, e, min, 1.0)
                            r, d = (spec.pmf_binomial(ref + alt, alt, num, den, 1.0) if density == "binomial" else spec.pmf_beta_binomial(ref + alt, alt, num, den, s, 1.0))
                            tot += r / d
                        worst = max(worst, abs(math.exp(grid[si, i]) - tot / len(gs)))
        return worst > 1e-9, {"max_abs_diff": worst}
    # grid / clusters
    counts = {"mA": [(2, 1, (2, 1, 2)), (0, 2, (1, 1, 2))], "mB": [(1, 1, (1, 0, 2)), (3, 0, (2, 0, 1))], "mC": [(0, 0, (1, 1, 2)), (1, 2, (2, 2, 2))]}
    worst = 0.0
    p = vals.get("p", 0.2)
    for density in ("binomial", "beta-binomial"):
        data = {}
        for m, rows in counts.items():
            sd = []
            for ref, alt, (maj, mi, no) in rows:
                cn, mu, log_pi = pc.get_major_cn_prior(maj, mi, no, error_rate=eps)
                sd.append(pc.SampleDataPoint(ref, alt, cn, mu, log_pi, t))
            data[m] = pc.DataPoint(["s1", "s2"], sd)
        grids = {m: d.to_likelihood_grid(density, 3, precision=s) for m, d in data.items()}
        for m, rows in counts.items():
            for si, (ref, alt, (maj, mi, no)) in enumerate(rows):
                for i in range(3):
                    worst = max(worst, abs(math.exp(grids[m][si, i]) - model(maj, mi, no, ref + alt, alt, i / 2, density)))
        cl = pc._create_clustered_data_arr({7: p, 9: p}, {7: 2, 9: 1}, {"mA": 7, "mB": 9, "mC": 7}, density, 3, s, data)
        worst = max(worst, float(np.abs(cl[0].value - (grids["mA"] + grids["mC"])).max()), float(np.abs(cl[1].value - grids["mB"]).max()))
        worst = max(worst, abs(cl[0].outlier_prob - 2 * math.log(p)), abs(cl[0].outlier_prob_not - 2 * math.log1p(-p)), abs(cl[1].outlier_prob - math.log(p)))
    return worst > 1e-9, {"max_abs_diff": worst}


def evidence(tier, seed, results, canaries):
    agg, funcs, obligations, discharged = harness.aggregate(results)
    real = [r for r in results if not r["job"].get("canary")]
    return {
        "level": "other",
        "coverage": {
            "explanation": "The real emission code (numba bodies as plain Python) is executed with tumour content, error rate, CCF, precision and "
                           "outlier probability as solver variables; counts and copy numbers are exhaustively split. z3 proves, on every region "
                           "of the error-rate splits (min(1-eps, x/total)), pointwise equality with the PyClone mixture oracle for both "
                           "densities, that the likelihood summed over all alternate counts is one, that grid entry i is the model at "
                           "ccf i/(G-1), that a cluster's grid is the sum of its members' and its outlier terms are size * log p and "
                           "size * log(1-p); major < minor raises MajorCopyNumberError exactly.",
            "functions_encoded": funcs, "obligations": obligations, "discharged": discharged,
            "bounds": {"quick": "major <= 2, minor <= major, normal in {1,2}, depth 0..3 (binomial) / 0..2 (beta-binomial), every alternate count", "thorough": "major <= 3, depth <= 5 / 4"},
            "outside_bounds": ["larger depths ('extreme depth')", "accuracy of lgamma and all floating-point effects", "the pandas loader (C17)"],
            "evaluations": sum(r.get("paths_total", 0) for r in real), "distinct_nontrivial": sum(1 for r in real if r["job"]["kind"] == "pmf") + 2,
            "rule": "evaluations = feasible paths (regions of the error-rate splits x counts); distinct cases = (copy-number state, density) plus the grid/cluster case and the validation sweep",
            "samples": [r["sample"] for r in real if r.get("sample")][:6],
            "paths": agg["paths"], "queries": agg["queries"], "solver_s": agg["solver_s"],
            "verdicts": {k: agg[k] for k in ("sat", "unsat", "unknown")}, "canaries": canaries,
            "stubs": patcher.STUBS + ["numba jitclass SampleDataPoint -> plain class with the same six fields; numba.typed.List -> list"],
        },
        "assumptions": ["Gamma(z+1) = z Gamma(z) (beta-binomial pmf becomes a rational function)", "t in (0,1], eps in (0,1/2), f in [0,1], s > 0, real arithmetic"],
    }
