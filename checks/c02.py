"""C02 - tree likelihood equals the exact CCF-grid marginal under the sum constraint.

Real code executed symbolically: Tree.create_root_node/_update_path_to_root/update/_update_node,
TreeNode.*, compute_log_S (through its content-hash cache), compute_log_D, _sub_compute_S,
_convolve_two_children, _np_conv_dims, and fft_convolve_two_children around the fftconvolve stub.
All likelihood grid values are solver variables; z3 decides `reported[d,k] == brute-force marginal`.
"""
import itertools
import math
from fractions import Fraction

import numpy as np

from vsym import harness, patcher, mutate
from vsym.build import sym_dp, float_dp, model_values, var_name
from vsym.ctx import CTX
from vsym.shapes import Forest, shapes_by_clone_count
from vsym.spec.marginal import marginal_bruteforce
from vsym.vq import V

META = {
    "property_id": "C02",
    "level": "other",
}

CANARIES = {
    # drop the truncation to the grid: the convolution tail leaks into nothing here, so instead
    # mutate the chain: the third and later children are convolved with the first child again
    "chain_uses_first_child": ("phyclone.tree.utils", "compute_log_D",
                               "conv_res = _convolve_two_children(child_log_R_values[j], conv_res)",
                               "conv_res = _convolve_two_children(child_log_R_values[j], child_log_R_values[0])"),
    "cumsum_dropped": ("phyclone.tree.utils", "_sub_compute_S",
                       "np.logaddexp.accumulate(log_D[i, :], out=log_S[i, :])", "log_S[i, :] = log_D[i, :]"),
    "conv_reversed_slice": ("phyclone.tree.utils", "_np_conv_dims",
                            "[:grid_size] for i in range(num_dims)", "[-grid_size:] for i in range(num_dims)"),
}


def apply_canary(name):
    return mutate.mutate(*CANARIES[name])


def _forest_from_job(job):
    return Forest([tuple(b) for b in job["blocks"]], [None if p is None else int(p) for p in job["parent"]])


def jobs(tier, seed):
    out = []
    kmax, G = (4, 3) if tier == "quick" else (6, 3)
    shapes = shapes_by_clone_count(kmax)
    for f in shapes:
        for D in ((1,) if len(f.blocks) > (3 if tier == "quick" else 4) else (1, 2)):
            out.append({"name": f"G{G}-D{D}-{f.describe()}", "blocks": f.blocks, "parent": f.parent, "G": G, "D": D,
                        "cost": len(f.blocks) ** 3 * D})
    # two data points in one clone
    for f in (Forest([[0, 1]], [None]), Forest([[0, 1], [2]], [None, 0]), Forest([[0], [1, 2], [3]], [None, None, 1])):
        out.append({"name": f"G{G}-D1-{f.describe()}", "blocks": f.blocks, "parent": f.parent, "G": G, "D": 1, "cost": 5})
    # sibling clones with identical likelihood rows (bit-identical log_R): the content-hash caches see repeated keys
    for f in (Forest([[0], [1], [2]], [2, 2, None]), Forest([[0], [1], [2], [3]], [3, 3, 3, None]), Forest([[0], [1], [2], [3]], [2, 2, None, None]),
              Forest([[0], [1], [2]], [None, None, None])):
        out.append({"name": f"G{G}-D1-twins-{f.describe()}", "blocks": f.blocks, "parent": f.parent, "G": G, "D": 1, "twins": True,
                    "cost": len(f.blocks) ** 3})
    if tier == "thorough":
        for f in shapes_by_clone_count(4):
            out.append({"name": f"G4-D1-{f.describe()}", "blocks": f.blocks, "parent": f.parent, "G": 4, "D": 1,
                        "cost": 50 * len(f.blocks) ** 3})
        for f in shapes_by_clone_count(3):
            out.append({"name": f"G5-D1-{f.describe()}", "blocks": f.blocks, "parent": f.parent, "G": 5, "D": 1,
                        "cost": 100 * len(f.blocks) ** 3})
        # FFT dispatch: grid of 1000 points, all but 3 entries per child concrete
        out.append({"name": "fft-G1000-two-children", "fft": True, "G": 1000, "D": 1, "cost": 2000,
                    "blocks": ((0,), (1,), (2,)), "parent": (2, 2, None)})
    out.append({"name": "float-window-rows-at-different-scales", "floatwin": True, "G": 4, "D": 2, "cost": 3,
                "blocks": ((0,), (1,), (2,)), "parent": (2, 2, None)})
    # canaries (quick: one per canary on a shape where it must bite)
    three = Forest([[0], [1], [2], [3]], [3, 3, 3, None])
    cherry = Forest([[0], [1], [2]], [2, 2, None])
    for cname, f in (("chain_uses_first_child", three), ("cumsum_dropped", cherry), ("conv_reversed_slice", cherry)):
        out.append({"name": f"canary-{cname}", "canary": cname, "blocks": f.blocks, "parent": f.parent, "G": 3, "D": 1, "cost": 30})
    return out


def _check_tree(tree, forest, dps, G, D, tag, res):
    prior = V(Fraction(1, G))
    ll = tree.data_log_likelihood
    for d in range(D):
        node_p = [[_blockprod(dps, forest.blocks[i], d, g) * prior for g in range(G)] for i in range(len(forest.blocks))]
        for k in range(G):
            ref = marginal_bruteforce(forest, node_p, G, k, prior, V(1))
            got = ll[d, k]
            res["obligations"] += 2
            # (a) value finite: exp(value) > 0 on every input
            if got.pos or CTX.prove_positive(got.e):
                res["discharged"] += 1
            else:
                res["cex"].append({"kind": "nonfinite", "d": d, "k": k, "mode": tag})
            claim = got.e.eq(ref)
            r, model = CTX.prove(claim, use_pc=False)
            if r == "unsat":
                res["discharged"] += 1
            elif r == "sat":
                r2, m2 = CTX.prove(claim, use_pc=False, box=(Fraction(1, 1000), 1000))
                model = m2 if r2 == "sat" else model
                res["cex"].append({"kind": "marginal", "d": d, "k": k, "mode": tag, "values": model_values(model)})
                return False
            else:
                raise harness_inconclusive(f"identity query unknown at d={d} k={k} ({tag})")
    return True


def harness_inconclusive(msg):
    from vsym.ctx import Inconclusive
    return Inconclusive(msg)


def _blockprod(dps, block, d, g):
    e = V(1)
    for x in block:
        e = e * dps[x].value[d, g].e
    return e


def float_window_problems():
    """Concrete complement to the real-arithmetic claim (runs on the unpatched code): samples whose likelihood rows sit ~800
    nats apart, each row well inside its own underflow window - the reported root vector must still match a log-space brute
    force per sample (the recursion normalises every sample by its own peak)."""
    import numpy as np
    from phyclone.tree import Tree
    from phyclone.data.base import DataPoint
    problems = []
    rs = np.random.default_rng(5)
    G, D = 4, 2
    for shape in (Forest([[0], [1], [2]], [2, 2, None]), Forest([[0], [1], [2], [3]], [3, 3, 3, None]), Forest([[0], [1], [2]], [None, None, None]),
                  Forest([[0], [1], [2], [3]], [1, None, 3, None])):
        for offset in (-800.0, -1200.0):
            dps = []
            for i in range(shape.n):
                v = np.log(rs.uniform(0.2, 2.0, size=(D, G)))
                v[1, :] += offset
                dps.append(DataPoint(i, v))
            tree = shape.to_tree(dps, (D, G))
            ll = tree.data_log_likelihood
            logprior = -math.log(G)
            for d in range(D):
                for k in range(G):
                    terms = []
                    from vsym.spec.marginal import feasible_assignments
                    for a in feasible_assignments(shape, G, k):
                        terms.append(logprior + sum(logprior + sum(dps[x].value[d, g] for x in shape.blocks[i]) for i, g in enumerate(a)))
                    m = max(terms)
                    ref = m + math.log(sum(math.exp(t - m) for t in terms))
                    if not math.isfinite(ll[d, k]) or abs(ll[d, k] - ref) > 1e-8:
                        problems.append(f"{shape.describe()} offset {offset}: sample {d} entry {k}: reported {ll[d, k]:.6f}, brute force {ref:.6f}")
                        break
    return problems


def _work_floatwin(job):
    import json, os, subprocess, sys
    root = os.path.dirname(os.path.dirname(os.path.abspath(__file__)))
    code = "import sys, json; sys.path.insert(0, %r); import checks.c02 as m; print(json.dumps(m.float_window_problems()))" % root
    pr = subprocess.run([sys.executable, "-c", code], cwd=root, capture_output=True, text=True, timeout=1800)
    if pr.returncode != 0:
        raise harness_inconclusive("float-window part failed to run: " + pr.stderr[-800:])
    problems = json.loads(pr.stdout.strip().splitlines()[-1])
    res = {"obligations": 1, "discharged": 0 if problems else 1, "cex": [], "nontrivial": True, "twin_ok": True,
           "functions": ["phyclone.tree.utils:_np_conv_dims", "phyclone.tree.utils:compute_log_S"],
           "sample": {"concrete": "4 shapes x 2 offsets, 2 samples ~800-1200 nats apart, grid 4: reported root vector vs log-space brute force (floats, unpatched code)"}}
    if problems:
        res["cex"].append({"kind": "float-window", "detail": problems[:3], "finding_key": "C02:float-window", "values": {}, "blocks": job["blocks"], "parent": job["parent"],
                           "G": 4, "D": 2})
    res["status"] = "cex" if problems else "ok"
    return res


def work(job):
    if job.get("fft"):
        return _work_fft(job)
    if job.get("floatwin"):
        return _work_floatwin(job)
    forest = _forest_from_job(job)
    G, D = job["G"], job["D"]
    res = {"obligations": 0, "discharged": 0, "cex": [], "nontrivial": len(forest.blocks) > 1}
    CTX.new_session()
    n = forest.n

    def run():
        dps = [sym_dp(i, D, G) for i in range(n)]
        if job.get("twins"):
            # all leaf clones share one symbolic likelihood row
            leaves = [b[0] for i, b in enumerate(forest.blocks) if not forest.children(i)]
            for x in leaves[1:]:
                dps[x].value = dps[leaves[0]].value.copy()
        tree = forest.to_tree(dps, (D, G))          # incremental: every create_root_node updates the path to the root
        ok = _check_tree(tree, forest, dps, G, D, "incremental", res)
        if ok:
            tree.update()                            # full post-order recomputation
            ok = _check_tree(tree, forest, dps, G, D, "full-update", res)
        if ok and len(forest.blocks) > 1:
            # a different creation order of the same forest (siblings swapped where possible)
            order = list(reversed(forest.depth_order()))
            order.sort(key=lambda i: -len(forest.subtree(i)) * 0 + _depth(forest, i) * -1)
            t2 = forest.to_tree(dps, (D, G), order=order)
            _check_tree(t2, forest, dps, G, D, "alt-order", res)
        return tree, dps

    (tree, dps), funcs = patcher.entered_functions(run)
    res["functions"] = funcs
    # reachability twin: assumptions satisfiable and the assertion site reached
    r, _ = CTX.check([tree.data_log_likelihood[0, G - 1].e.gt(0)])
    res["twin_ok"] = (r == "sat")
    res["status"] = "cex" if res["cex"] else "ok"
    for c in res["cex"]:
        c.update({"blocks": forest.blocks, "parent": forest.parent, "G": G, "D": D, "finding_key": "C02:marginal", "twins": bool(job.get("twins"))})
    res["sample"] = {"forest": forest.describe(), "G": G, "D": D, "identities": res["obligations"] // 2,
                     "largest_query_vars": n * D * G}
    return res


def _depth(forest, i):
    d = 0
    while forest.parent[i] is not None:
        i = forest.parent[i]
        d += 1
    return d


def _work_fft(job):
    """Drive the real `grid_size < 1000` dispatch into fft_convolve_two_children (transform itself = stub)."""
    from phyclone.tree import Tree
    from phyclone.data.base import DataPoint
    from vsym.scalars import Log
    G, D = job["G"], 1
    forest = _forest_from_job(job)
    res = {"obligations": 0, "discharged": 0, "cex": [], "nontrivial": True}
    CTX.new_session()

    def mk(idx, support):
        a = np.empty((1, G), dtype=object)
        for g in range(G):
            # background entries are the constant 1 (an exact 0 would sit below the 1e-100 floor, outside the property)
            a[0, g] = Log(V.var(var_name(idx, 0, g))) if g in support else Log(V(1))
        dp = DataPoint.__new__(DataPoint)
        dp.idx, dp.value, dp.name = idx, a, idx
        dp.outlier_prob, dp.outlier_prob_not, dp.outlier_marginal_prob = 0, 1, 0
        return dp

    # sparse symbolic children (3 non-zero entries each), parent fully symbolic on 3 entries as well
    sup = {0: (0, 1, 2), 1: (0, 1, 3), 2: (2, 5, 7)}

    def run():
        dps = [mk(i, sup[i]) for i in range(3)]
        tree = forest.to_tree(dps, (1, G))
        return tree, dps

    (tree, dps), funcs = patcher.entered_functions(run)
    res["functions"] = funcs
    if not any("fft_convolve_two_children" in f for f in funcs):
        raise harness_inconclusive("FFT path not entered at grid 1000")
    prior = V(Fraction(1, G))
    ll = tree.data_log_likelihood
    # closed form of the oracle for this sparse instance: enumerate only supported indices
    def val(i, g):
        return dps[i].value[0, g].e
    for k in (0, 1, 2, 3, 5, 6, 8):
        tot = V(0)
        for g2 in range(k + 1):
            for g0 in range(g2 + 1):
                for g1 in range(g2 - g0 + 1):
                    tot = tot + prior * (val(0, g0) * prior) * (val(1, g1) * prior) * (val(2, g2) * prior)
        res["obligations"] += 1
        r, model = CTX.prove(ll[0, k].e.eq(tot) if not tot.is_zero() else ll[0, k].e.eq(V(0)), use_pc=False)
        if r == "unsat":
            res["discharged"] += 1
        elif r == "sat":
            res["cex"].append({"kind": "fft", "k": k, "values": model_values(model), "finding_key": "C02:fft"})
        else:
            raise harness_inconclusive("fft identity unknown")
    res["twin_ok"] = True
    res["status"] = "cex" if res["cex"] else "ok"
    res["sample"] = {"forest": "cherry at G=1000 (FFT dispatch), 3 symbolic entries per clone on a constant background, root entries k <= 8", "identities": res["obligations"]}
    return res


# ---------------------------------------------------------------------------------------------
# concrete replay on the unpatched code

def replay(case):
    if case.get("kind") == "float-window":
        pr = float_window_problems()
        return bool(pr), pr[:3]
    if case.get("kind") == "fft":
        return False, "fft counterexamples are not replayed (stubbed transform)"
    forest = Forest([tuple(b) for b in case["blocks"]], [None if p is None else int(p) for p in case["parent"]])
    G, D = case["G"], case["D"]
    vals = case.get("values", {})
    dps = [float_dp(i, D, G, vals) for i in range(forest.n)]
    if case.get("twins"):
        leaves = [b[0] for i, b in enumerate(forest.blocks) if not forest.children(i)]
        for x in leaves[1:]:
            dps[x].value = dps[leaves[0]].value.copy()
    tree = forest.to_tree(dps, (D, G))
    if case.get("mode") == "full-update":
        tree.update()
    ll = tree.data_log_likelihood
    prior = 1.0 / G
    worst = 0.0
    for d in range(D):
        node_p = [[math.exp(sum(dps[x].value[d, g] for x in forest.blocks[i])) * prior for g in range(G)] for i in range(len(forest.blocks))]
        for k in range(G):
            ref = marginal_bruteforce(forest, node_p, G, k, prior, 1.0)
            got = math.exp(ll[d, k])
            if not math.isfinite(ll[d, k]):
                return True, f"non-finite value at d={d} k={k}"
            worst = max(worst, abs(got - ref) / max(abs(ref), 1e-300))
    return worst > 1e-6, {"max_rel_diff": worst}


def evidence(tier, seed, results, canaries):
    agg, funcs, obligations, discharged = harness.aggregate(results)
    real = [r for r in results if not r["job"].get("canary")]
    samples = [r["sample"] for r in real if "sample" in r][:6]
    return {
        "level": "other",
        "coverage": {
            "explanation": "Bounded symbolic execution of the real tree/recursion code with every likelihood grid value a z3 real "
                           "variable; for each forest shape, sample and grid index k the solver decides reported == brute-force marginal "
                           "(unsat = holds for all positive real data), plus positivity (= finite log) of every reported entry.",
            "functions_encoded": funcs,
            "bounds": {"clones": "all unlabelled forest shapes with <= 4 (quick) / 6 (thorough) clones, one data point per clone, plus 3 shapes with a 2-point clone",
                       "grid": "3 (quick); 3,4,5 (thorough); one G=1000 FFT-dispatch instance with 3 symbolic entries per clone (thorough)",
                       "samples": "1-2", "build orders": "incremental, full update(), alternative creation order"},
            "concrete_complement": "one job replays concrete samples whose rows sit 800-1200 nats apart through the unpatched code against a log-space brute force (per-sample normalisation)",
            "outside_bounds": ["floating-point rounding, the 1e-100 floor and FFT round-off (real arithmetic only; see concrete_complement)", "more than 5 clones, grids > 5 (except the sparse FFT instance)"],
            "obligations": obligations, "discharged": discharged,
            "evaluations": len(real), "distinct_nontrivial": sum(1 for r in real if r.get("nontrivial")),
            "rule": "one case per (forest shape, grid size, sample count); non-trivial = more than one clone",
            "samples": samples, "paths": agg["paths"], "queries": agg["queries"], "solver_s": agg["solver_s"],
            "verdicts": {k: agg[k] for k in ("sat", "unsat", "unknown")},
            "canaries": canaries, "reachability_twins": sum(1 for r in real if r.get("twin_ok")),
            "stubs": patcher.STUBS,
        },
        "assumptions": ["likelihood values are positive reals (no IEEE effects)", "xxh3 digests do not collide",
                        "scipy.signal.fftconvolve computes the exact linear convolution"],
    }
