"""C10 - reported CCFs are feasible on the tree and jointly maximise the likelihood.

Executed symbolically: get_map_node_ccfs_and_clonal_prev_dicts, compute_map_tree_features,
convert_rustworkx_to_networkx, compute_max_likelihood, map.compute_log_S/compute_log_D/_compute_log_D_n,
set_max_assignment/_set_max_assignment, get_map_ccfs, get_map_clonal_prev.  Grid values are solver variables;
every > / >= of the max-product recursion forks under a z3-checked path condition.
"""
import itertools
import math
from fractions import Fraction

from vsym import harness, patcher, mutate
from vsym.build import sym_dp, float_dp, model_values
from vsym.ctx import CTX, Inconclusive
from vsym.shapes import Forest, shapes_by_clone_count
from vsym.histories import build_prune_regraft
from vsym.vq import V
import z3

META = {"property_id": "C10", "level": "other"}

CANARIES = {
    "traceback_forgets_to_subtract": ("phyclone.process_trace.map", "_set_max_assignment",
                                      'child_total_idx[d] -= graph.nodes[child]["max_idx"][d]', "pass"),
    "running_max_uses_ge_wrong_way": ("phyclone.process_trace.map", "compute_log_S",
                                      "if log_D[i, j] > log_S[i, j - 1]:", "if log_D[i, j] < log_S[i, j - 1]:"),
}


def apply_canary(name):
    return mutate.mutate(*CANARIES[name])


def _first_of_siblings(f):
    for i in [None] + list(range(len(f.blocks))):
        ch = f.roots() if i is None else f.children(i)
        if len(ch) >= 2:
            return ch[0]
    return None


def _build(forest, dps, grid, regraft):
    if regraft is None:
        return forest.to_tree(dps, grid)
    t = build_prune_regraft(forest, dps, grid, regraft)
    return t if t is not None else forest.to_tree(dps, grid)


def _fj(job):
    return Forest([tuple(b) for b in job["blocks"]], [None if p is None else int(p) for p in job["parent"]])


def jobs(tier, seed):
    out = []
    plan = [(3, 3, 1), (2, 3, 2)] if tier == "quick" else [(4, 3, 1), (2, 4, 1), (2, 3, 2), (3, 4, 1)]
    seen = set()
    for kmax, G, D in plan:
        for f in shapes_by_clone_count(kmax):
            key = (f.describe(), G, D)
            if key in seen:
                continue
            seen.add(key)
            out.append({"name": f"G{G}-D{D}-{f.describe()}", "blocks": f.blocks, "parent": f.parent, "G": G, "D": D,
                        "cost": (G ** len(f.blocks)) ** D * len(f.blocks)})
            # the same forest reached by pruning the first of several siblings and grafting it back: the sibling order in
            # the graph then differs from the order of the clone names (as after any prune-regraft move in a run)
            w = _first_of_siblings(f)
            if w is not None and G == 3 and D == 1:
                out.append({"name": f"G{G}-D{D}-{f.describe()}-regrafted{w}", "blocks": f.blocks, "parent": f.parent, "G": G, "D": D,
                            "regraft": w, "cost": (G ** len(f.blocks)) ** D * len(f.blocks)})
    f2 = Forest([[0, 1], [2]], [None, 0])
    out.append({"name": f"G3-D1-{f2.describe()}", "blocks": f2.blocks, "parent": f2.parent, "G": 3, "D": 1, "cost": 10})
    cherry = Forest([[0], [1], [2]], [2, 2, None])
    for cname in CANARIES:
        out.append({"name": f"canary-{cname}", "canary": cname, "blocks": cherry.blocks, "parent": cherry.parent, "G": 3, "D": 1, "cost": 30})
    return out


def feasible_assignments(forest, G):
    """index per clone: clone >= sum of children, top-level sum <= G-1 (root fixed at CCF one)"""
    K = len(forest.blocks)
    ch = [forest.children(i) for i in range(K)]
    roots = forest.roots()
    for a in itertools.product(range(G), repeat=K):
        if any(a[i] < sum(a[c] for c in ch[i]) for i in range(K)):
            continue
        if sum(a[r] for r in roots) > G - 1:
            continue
        yield a


def _read(forest, tree, ccf, prev, G, D):
    """returned index per clone and sample, or a problem string"""
    names = {frozenset(dp.idx for dp in tree.get_data(nm)): nm for nm in tree.nodes}
    idx = []
    for i, b in enumerate(forest.blocks):
        nm = names[frozenset(b)]
        if nm not in ccf or nm not in prev:
            return None, f"clone {b} missing from the result"
        row = []
        for d in range(D):
            v = Fraction(float(ccf[nm][d])).limit_denominator(10 ** 6) * (G - 1)
            if v.denominator != 1 or not (0 <= v <= G - 1):
                return None, f"ccf {ccf[nm][d]} of clone {b} is not on the grid"
            row.append(int(v))
        idx.append(row)
    for i, b in enumerate(forest.blocks):
        nm = names[frozenset(b)]
        for d in range(D):
            want = Fraction(idx[i][d] - sum(idx[c][d] for c in forest.children(i)), G - 1)
            got = Fraction(float(prev[nm][d])).limit_denominator(10 ** 6)
            if got != want:
                return None, f"clonal prevalence {prev[nm][d]} of clone {b} != ccf - children ({want})"
            if got < 0:
                return None, f"negative clonal prevalence for clone {b}"
    return idx, None


def work(job):
    from phyclone.process_trace.map import get_map_node_ccfs_and_clonal_prev_dicts
    forest = _fj(job)
    G, D = job["G"], job["D"]
    res = {"obligations": 0, "discharged": 0, "cex": [], "nontrivial": len(forest.blocks) > 1, "optima": set()}
    CTX.new_session()
    n = forest.n
    dps = [sym_dp(i, D, G) for i in range(n)]
    tree = _build(forest, dps, (D, G), job.get("regraft"))
    feas = list(feasible_assignments(forest, G))

    def val(assign, d):
        e = V(1)
        for i, g in enumerate(assign):
            for x in forest.blocks[i]:
                e = e * dps[x].value[d, g].e
        return e

    def one():
        ccf, prev = get_map_node_ccfs_and_clonal_prev_dicts(tree)
        return _read(forest, tree, ccf, prev, G, D)

    def run():
        return CTX.explore(one, catch=(Exception,), max_paths=200000)
    paths, funcs = patcher.entered_functions(run)
    res["functions"] = funcs
    res["paths"] = len(paths)
    for p in paths:
        res["obligations"] += 2
        if p.exc is not None:
            res["cex"].append({"kind": "exception", "detail": repr(p.exc)})
            break
        idx, problem = p.result
        if problem:
            r, model = CTX.check(p.pc, want_model=True)
            res["cex"].append({"kind": "infeasible-result", "detail": problem, "values": model_values(model) if model else {}})
            break
        ok = True
        for d in range(D):
            a = tuple(idx[i][d] for i in range(len(forest.blocks)))
            if a not in feas:
                ok = False
        if not ok:
            r, model = CTX.check(p.pc, want_model=True)
            res["cex"].append({"kind": "infeasible-result", "detail": f"indices {idx} violate the tree constraints", "values": model_values(model) if model else {}})
            break
        res["discharged"] += 1
        res["optima"].add(str(idx))
        # optimality: no feasible assignment is strictly better anywhere in this path's region
        better = []
        for d in range(D):
            a = tuple(idx[i][d] for i in range(len(forest.blocks)))
            va = val(a, d)
            for o in feas:
                if o != a:
                    c = val(o, d).gt(va)
                    if c is True:
                        better.append(z3.BoolVal(True))
                    elif c is not False:
                        better.append(c)
        if not better:
            res["discharged"] += 1
            continue
        r, model = CTX.check(list(p.pc) + [z3.Or(better)], want_model=True)
        if r == "unsat":
            res["discharged"] += 1
        elif r == "sat":
            res["cex"].append({"kind": "not-optimal", "returned": idx, "values": model_values(model)})
            break
        else:
            raise Inconclusive("optimality query unknown")
    res["twin_ok"] = len(paths) > 0
    res["status"] = "cex" if res["cex"] else "ok"
    for c in res["cex"]:
        c.update({"blocks": forest.blocks, "parent": forest.parent, "G": G, "D": D, "regraft": job.get("regraft"),
                  "finding_key": "C10:" + c["kind"]})
    res["sample"] = {"forest": forest.describe(), "G": G, "D": D, "paths": len(paths), "feasible_assignments": len(feas),
                     "distinct_optima_reached": len(res["optima"])}
    res["optima"] = len(res["optima"])
    return res


def replay(case):
    from phyclone.process_trace.map import get_map_node_ccfs_and_clonal_prev_dicts
    forest = Forest([tuple(b) for b in case["blocks"]], [None if p is None else int(p) for p in case["parent"]])
    G, D = case["G"], case["D"]
    # as in the exploration (and as when a summary command walks a trace) the same forest is evaluated more than once in one
    # process with other data first
    warm = _build(forest, [float_dp(i, D, G, {}) for i in range(forest.n)], (D, G), case.get("regraft"))
    try:
        get_map_node_ccfs_and_clonal_prev_dicts(warm)
    except Exception:  # noqa - only the call on the counterexample's data is judged
        pass
    dps = [float_dp(i, D, G, case.get("values", {})) for i in range(forest.n)]
    tree = _build(forest, dps, (D, G), case.get("regraft"))
    try:
        ccf, prev = get_map_node_ccfs_and_clonal_prev_dicts(tree)
    except Exception as e:  # noqa
        return True, {"exception": repr(e)}
    idx, problem = _read(forest, tree, ccf, prev, G, D)
    if problem:
        return True, {"problem": problem}
    feas = list(feasible_assignments(forest, G))
    for d in range(D):
        a = tuple(idx[i][d] for i in range(len(forest.blocks)))
        if a not in feas:
            return True, {"infeasible": idx}

        def val(assign):
            return sum(dps[x].value[d, g] for i, g in enumerate(assign) for x in forest.blocks[i])
        best = max(val(o) for o in feas)
        if best > val(a) + 1e-9:
            return True, {"returned": idx, "log_value": val(a), "best": best}
    return False, {"returned": idx}


def evidence(tier, seed, results, canaries):
    agg, funcs, obligations, discharged = harness.aggregate(results)
    real = [r for r in results if not r["job"].get("canary")]
    return {
        "level": "other",
        "coverage": {
            "explanation": "The real max-product recursion and traceback are executed symbolically; each comparison forks under a z3-checked "
                           "path condition, so the paths partition the data space. Per path: the returned indices are on the grid and "
                           "satisfy the tree constraints (ground), clonal prevalence = ccf - children >= 0 (ground), and z3 proves that no "
                           "feasible assignment (brute-force list) has a strictly larger likelihood anywhere in the path's region.",
            "functions_encoded": funcs,
            "bounds": {"quick": "all forest shapes with <= 3 clones at grid 3, one sample, each also as reached by a prune-regraft of the first of several siblings (sibling order in the graph != name order); <= 2 clones with 2 samples", "thorough": "<= 4 clones at grid 3 (with the regrafted variants); <= 3 clones at grid 4"},
            "outside_bounds": ["floating-point ties/rounding (1e-12 clause)", "larger grids and trees"],
            "obligations": obligations, "discharged": discharged,
            "evaluations": agg["paths"], "distinct_nontrivial": sum(r.get("optima", 0) for r in real if r.get("nontrivial")),
            "rule": "evaluations = feasible paths of the recursion (regions of the data space); distinct non-trivial = distinct optimal assignments reached on forests with > 1 clone",
            "samples": [r["sample"] for r in real if r.get("sample")][:8],
            "paths": agg["paths"], "queries": agg["queries"], "solver_s": agg["solver_s"],
            "verdicts": {k: agg[k] for k in ("sat", "unsat", "unknown")},
            "canaries": canaries, "reachability_twins": sum(1 for r in real if r.get("twin_ok")), "stubs": patcher.STUBS,
        },
        "assumptions": ["positive real data; ties are real-arithmetic ties", "feasibility constraints as in the property statement (root fixed at CCF one)"],
    }
