"""C14 - memoised recursion and proposal results equal the unmemoised computation at the moment of the call.

Executed symbolically: list_of_np_cache / two_np_arr_cache and their hasher classes, the cached compute_log_S and
_convolve_two_children, _get_cached_semi_proposal_dist, _get_cached_full_proposal_dist, get_cached_new_tree,
clear_proposal_dist_caches.  Every call of a cached function is shadowed by a call of its __wrapped__ original on
the same arguments at that moment; z3 decides equality of the two results.  Histories: permutations of explicit
call sequences on symbolic arrays, and two successive particle-Gibbs updates with a change of the concentration
value in between (with and without clearing the caches, as the run loop / the library tests do).
"""
import itertools
import math
from fractions import Fraction

import numpy as np
import z3

from vsym import harness, patcher, mutate
from vsym.build import sym_dp, float_dp, model_values
from vsym.ctx import CTX, Inconclusive
from vsym.forkrng import ForkRNG
from vsym.scalars import Log, Lin
from vsym.shapes import all_forests
from vsym.vq import V

META = {"property_id": "C14", "level": "other"}

CANARIES = {
    "proposal_cache_key_without_alpha": ("phyclone.smc.kernels.semi_adapted", "SemiAdaptedKernel.get_proposal_distribution",
                                         "self.tree_dist.prior.alpha,", "0,"),
    "two_array_key_uses_first_only": ("phyclone.utils.utils", "NumpyTwoArraysHasher.__init__",
                                      "self.h = frozenset([xxh3_64_hexdigest(arr_1), xxh3_64_hexdigest(arr_2)])",
                                      "self.h = frozenset([xxh3_64_hexdigest(arr_1)])"),
    "list_key_drops_duplicates": ("phyclone.utils.utils", "NumpyArrayListHasher._create_hashable",
                                  "ret = tuple(hashable)", "ret = tuple(sorted(set(hashable)))"),
}


def apply_canary(name):
    return mutate.mutate(*CANARIES[name])


def jobs(tier, seed):
    out = [{"name": "array-caches", "kind": "arrays", "cost": 20},
           {"name": "array-cache-keys", "kind": "keys", "cost": 40}]
    if tier == "thorough":
        out.append({"name": "array-caches-grid1000", "kind": "arrays1000", "cost": 500})
    for kern in ("semi", "fully"):
        for clear in (False, True):
            # two successive updates square the path count: n = 3 is out of reach (probed: > 25 min for one job); the thorough
            # tier explores every start forest at n = 2 and adds resampling (threshold 1)
            for thr in (("0",) if tier == "quick" else ("0", "1")):
                out.append({"name": f"two-updates-{kern}-clear{int(clear)}-n2-thr{thr}", "kind": "sampler", "kernel": kern, "clear": clear, "n": 2,
                            "thr": thr, "all_starts": tier == "thorough", "cost": 60 * 8})
    out.append({"name": "canary-proposal_cache_key_without_alpha", "canary": "proposal_cache_key_without_alpha", "kind": "sampler", "kernel": "semi",
                "clear": False, "n": 2, "cost": 60})
    out.append({"name": "canary-two_array_key_uses_first_only", "canary": "two_array_key_uses_first_only", "kind": "arrays", "cost": 20})
    out.append({"name": "canary-list_key_drops_duplicates", "canary": "list_key_drops_duplicates", "kind": "arrays", "cost": 20})
    out.append({"name": "canary-keys-list_key_drops_duplicates", "canary": "list_key_drops_duplicates", "kind": "keys", "cost": 20})
    return out


# ---- comparison of results ------------------------------------------------------------------------------------
class Mismatch(Exception):
    def __init__(self, what, claim):
        self.what, self.claim = what, claim


def _e(x):
    if isinstance(x, (Log, Lin)):
        return x.e
    if isinstance(x, (int, float, np.integer, np.floating)):
        return ("num", float(x))
    return ("obj", x)


def _same_scalar(what, a, b, pending):
    ea, eb = _e(a), _e(b)
    if type(a) is not type(b) and not (isinstance(ea, V) and isinstance(eb, V)):
        if isinstance(ea, tuple) and isinstance(eb, tuple) and ea == eb:
            return
        raise Mismatch(what, False)
    if isinstance(ea, V):
        c = ea.eq(eb)
        if c is True:
            return
        pending.append((what, c))
        return
    if ea != eb:
        raise Mismatch(what, False)


def _same_array(what, a, b, pending):
    if isinstance(a, np.ndarray) != isinstance(b, np.ndarray):
        raise Mismatch(what + ":kind", False)
    if not isinstance(a, np.ndarray):
        return _same_scalar(what, a, b, pending)
    if a.shape != b.shape:
        raise Mismatch(what + ":shape", False)
    for idx in np.ndindex(a.shape):
        if a.shape[-1] >= 1000 and idx[-1] >= 10:
            continue          # grid-1000 histories: the first ten grid entries of every row are compared
        _same_scalar(f"{what}{list(idx)}", a[idx], b[idx], pending)


def _same_holder(what, a, b, pending):
    if a != b or hash(a) != hash(b):
        raise Mismatch(what + ":tree", False)
    for f in ("log_p", "log_p_one", "log_pdf"):
        _same_scalar(f"{what}.{f}", getattr(a, f), getattr(b, f), pending)
    if list(a.tree_roots) != list(b.tree_roots) or a.labels != b.labels or a.node_last_added_to != b.node_last_added_to \
            or a.num_children_on_node_that_matters != b.num_children_on_node_that_matters:
        raise Mismatch(what + ":fields", False)


def _same_proposal(what, a, b, pending):
    if type(a) is not type(b):
        raise Mismatch(what + ":type", False)
    da, db = a._log_p, b._log_p
    if set(da) != set(db):
        raise Mismatch(what + ":support", False)
    kb = {k: k for k in db}
    for k, v in da.items():
        _same_holder(f"{what}.key", k, kb[k], pending)
        _same_scalar(f"{what}.log_p", v, db[k], pending)
    if hasattr(a, "_q_dist"):
        _same_array(what + "._q_dist", a._q_dist, b._q_dist, pending)
        if len(a._curr_trees) != len(b._curr_trees) or any(x != y for x, y in zip(a._curr_trees, b._curr_trees)):
            raise Mismatch(what + "._curr_trees", False)
        if a.parent_is_empty_tree != b.parent_is_empty_tree:
            raise Mismatch(what + ".parent_is_empty_tree", False)


class Shadow:
    """Wraps the cached entry points; every call also runs the unmemoised original and records the comparison."""

    def __init__(self):
        self.calls = 0
        self.hits = 0
        self.pending = []     # (what, z3 claim) to be discharged by the caller
        self.failed = []      # structural mismatches
        self.undo = []

    def _record(self, what, fn):
        self.calls += 1
        try:
            fn()
        except Mismatch as m:
            self.failed.append((what, m.what))

    def install(self):
        import phyclone.tree.utils as tu
        import phyclone.tree.tree_node as tn
        import phyclone.smc.kernels.semi_adapted as sa
        import phyclone.smc.kernels.fully_adapted as fa
        sh = self
        c_S, c_conv = tu.compute_log_S, tu._convolve_two_children

        def compute_log_S(lst):
            before = c_S.cache_info().hits
            got = c_S(lst)
            sh.hits += c_S.cache_info().hits - before
            want = c_S.__wrapped__(patcher.FACADE.array(list(lst)))
            sh._record("compute_log_S", lambda: _same_array("compute_log_S", got, want, sh.pending))
            return got
        compute_log_S.cache_info, compute_log_S.cache_clear, compute_log_S.__wrapped__ = c_S.cache_info, c_S.cache_clear, c_S.__wrapped__

        def conv(a, b):
            before = c_conv.cache_info().hits
            got = c_conv(a, b)
            sh.hits += c_conv.cache_info().hits - before
            want = c_conv.__wrapped__(a, b)
            sh._record("_convolve_two_children", lambda: _same_array("_convolve_two_children", got, want, sh.pending))
            return got
        conv.cache_info, conv.cache_clear, conv.__wrapped__ = c_conv.cache_info, c_conv.cache_clear, c_conv.__wrapped__
        self._set(tu, "compute_log_S", compute_log_S)
        self._set(tn, "compute_log_S", compute_log_S)
        self._set(tu, "_convolve_two_children", conv)

        def shadow_prop(mod, name):
            cached = getattr(mod, name)

            def f(data_point, kernel, parent_particle, outlier_proposal_prob, alpha):
                bt = None
                if parent_particle is not None and len(parent_particle._built_tree):
                    bt = parent_particle._built_tree[-1]
                before = cached.cache_info().hits
                got = cached(data_point, kernel, parent_particle, outlier_proposal_prob, alpha)
                sh.hits += cached.cache_info().hits - before
                left = list(parent_particle._built_tree) if parent_particle is not None else None
                if parent_particle is not None:
                    parent_particle.built_tree = bt
                want = cached.__wrapped__(data_point, kernel, parent_particle, outlier_proposal_prob, alpha)
                if parent_particle is not None:
                    parent_particle._built_tree.clear()
                    parent_particle._built_tree.extend(left)
                sh._record(name, lambda: _same_proposal(name, got, want, sh.pending))
                return got
            f.cache_info, f.cache_clear, f.__wrapped__ = cached.cache_info, cached.cache_clear, cached.__wrapped__
            self._set(mod, name, f)
        shadow_prop(sa, "_get_cached_semi_proposal_dist")
        shadow_prop(fa, "_get_cached_full_proposal_dist")
        c_new = sa.get_cached_new_tree

        def get_cached_new_tree(parent_particle, data_point, children, tree_dist, perm_dist):
            before = c_new.cache_info().hits
            got = c_new(parent_particle, data_point, children, tree_dist, perm_dist)
            sh.hits += c_new.cache_info().hits - before
            want = c_new.__wrapped__(parent_particle, data_point, children, tree_dist, perm_dist)
            sh._record("get_cached_new_tree", lambda: _same_holder("get_cached_new_tree", got, want, sh.pending))
            return got
        get_cached_new_tree.cache_info, get_cached_new_tree.cache_clear, get_cached_new_tree.__wrapped__ = c_new.cache_info, c_new.cache_clear, c_new.__wrapped__
        self._set(sa, "get_cached_new_tree", get_cached_new_tree)
        import phyclone.utils.dev as dev
        self._set(dev, "_get_cached_semi_proposal_dist", sa._get_cached_semi_proposal_dist)
        self._set(dev, "_get_cached_full_proposal_dist", fa._get_cached_full_proposal_dist)
        self._set(dev, "get_cached_new_tree", get_cached_new_tree)

    def _set(self, mod, name, val):
        old = getattr(mod, name)
        setattr(mod, name, val)
        self.undo.append((mod, name, old))

    def remove(self):
        for mod, name, old in reversed(self.undo):
            setattr(mod, name, old)
        self.undo = []


def _discharge(res, sh, extra, label, info):
    """Prove the recorded equalities; returns False after recording a counterexample."""
    for what, where in sh.failed:
        res["obligations"] += 1
        res["cex"].append({"kind": "structural", "what": f"{what}: {where}", "values": {}, **info})
        return False
    claims = []
    for what, c in sh.pending:
        res["obligations"] += 1
        claims.append((what, c))
    if not claims:
        return True
    conj = z3.And([z3.BoolVal(c) if isinstance(c, bool) else c for _, c in claims])
    r, model = CTX.prove(conj, extra=extra, use_pc=False)
    if r == "unsat":
        res["discharged"] += len(claims)
        return True
    if r == "sat":
        bad = claims[0][0]
        for what, c in claims:
            if not isinstance(c, bool) and z3.is_false(model.eval(c, model_completion=True)):
                bad = what
                break
        res["cex"].append({"kind": "value", "what": bad, "values": model_values(model), **info})
        return False
    raise Inconclusive(f"{label}: unknown")


def work(job):
    res = {"obligations": 0, "discharged": 0, "cex": [], "nontrivial": True, "calls": 0, "hits": 0, "histories": 0}
    CTX.new_session()
    CTX.sentinel_mode = "assume"
    if job["kind"] == "arrays":
        funcs = _arrays(res)
    elif job["kind"] == "keys":
        funcs = _keys(res)
    elif job["kind"] == "arrays1000":
        funcs = _arrays(res, big=True)
    else:
        funcs = _sampler(res, job)
    res["functions"] = funcs
    res["twin_ok"] = res["calls"] > 0 and res["hits"] > 0
    res["status"] = "cex" if res["cex"] else "ok"
    for c in res["cex"]:
        c.update({"finding_key": f"C14:{job['kind']}:{c['kind']}", "job": {k: job.get(k) for k in ("kind", "kernel", "clear", "n", "thr")}})
    res["cex"] = res["cex"][:1]
    return res


def _sym_arr(tag, D, G):
    a = np.empty((D, G), dtype=object)
    for d in range(D):
        for g in range(G):
            a[d, g] = Log(V.var(f"{tag}_{d}_{g}"))
    return a


ARRAY_CALLS = [("S", "R"), ("S", "RR"), ("S", "RQ"), ("S", "QR"), ("S", "RRQ"), ("S", "RQQ"), ("S", "RQR"), ("S", "QRT"), ("S", "TRQ"), ("S", "RRR"),
               ("C", "RQ"), ("C", "QR"), ("C", "RR"), ("C", "QQ"), ("C", "RT")]


def _big_arr(tag, G=1000):
    """1 x 1000 array: constant background, two symbolic entries (the grid size at which the FFT path and any size-gated
    shortcut are taken)"""
    a = np.empty((1, G), dtype=object)
    for g in range(G):
        a[0, g] = Log(V(1))
    for j, g in enumerate((1, 4) if tag == "R" else (0, 3) if tag == "Q" else (2, 5)):
        a[0, g] = Log(V.var(f"{tag}_0_{g}"))
    return a


class SymDigest:
    """Digest of a symbolic array for the key-injectivity job: equal exactly when the arrays are equal, decided by the solver on
    the current path (a fork when both are possible).  All digests of one shape share a hash, so sets, tuples and the lru
    dictionary fall through to __eq__; the order used by sort() is structural."""
    def __init__(self, arr):
        arr = np.asarray(arr)
        self.shape = arr.shape
        self.vals = list(arr.flat)
        self.skey = patcher.digest_stub(arr) if arr.dtype == object else repr(arr.tolist())

    def __hash__(self):
        return hash(self.shape)

    def __eq__(self, o):
        if not isinstance(o, SymDigest) or self.shape != o.shape:
            return False
        if self.skey == o.skey:
            return True
        claims = []
        for x, y in zip(self.vals, o.vals):
            ex, ey = _e(x), _e(y)
            if not (isinstance(ex, V) and isinstance(ey, V)):
                if ex != ey:
                    return False
                continue
            c = ex.eq(ey)
            if c is False:
                return False
            if c is not True:
                claims.append(c)
        if not claims:
            return True
        return CTX.decide(z3.And(claims))

    def __ne__(self, o):
        return not self.__eq__(o)

    def __lt__(self, o):
        return self.skey < o.skey


# pairs / lists of independent symbolic arrays: a stale hit needs key(args) == key(args') for different arguments, which the
# solver looks for (the digest itself is assumed injective)
KEY_HISTORIES = [[("C", "AB"), ("C", "CD")], [("C", "AB"), ("C", "BA"), ("C", "CA")], [("S", "AB"), ("S", "CD")], [("S", "A"), ("S", "CC"), ("S", "C")],
                 [("S", "AAB"), ("S", "CDD")]]


def _keys(res):
    import phyclone.tree.utils as tu
    import phyclone.utils.utils as uu
    arrs = {k: _sym_arr(k, 1, 2) for k in "ABCD"}

    def run():
        old = uu.xxh3_64_hexdigest
        uu.xxh3_64_hexdigest = SymDigest
        try:
            for h in KEY_HISTORIES:
                def one():
                    patcher.reset_caches()
                    sh = Shadow()
                    sh.install()
                    try:
                        for kind, spec in h:
                            if kind == "S":
                                tu.compute_log_S([arrs[c] for c in spec])
                            else:
                                tu._convolve_two_children(arrs[spec[0]], arrs[spec[1]])
                    finally:
                        sh.remove()
                    return sh
                for p in CTX.explore(one):
                    sh = p.result
                    res["histories"] += 1
                    res["calls"] += sh.calls
                    res["hits"] += sh.hits
                    if not _discharge(res, sh, p.pc, "keys", {"history": [f"{k}{s}" for k, s in h]}):
                        return
        finally:
            uu.xxh3_64_hexdigest = old
    _, funcs = patcher.entered_functions(run)
    res["sample"] = {"key_histories": [[f"{k}({','.join(s)})" for k, s in h] for h in KEY_HISTORIES], "paths": res["histories"],
                     "shadowed_calls": res["calls"], "cache_hits": res["hits"]}
    return funcs


BIG_CALLS = [("C", "RQ"), ("S", "RQ"), ("C", "QR")]      # each 1000-point symbolic convolution costs minutes: the shortest history with a hit after S


def _arrays(res, big=False):
    import phyclone.tree.utils as tu
    arrs = {k: (_big_arr(k) if big else _sym_arr(k, 1, 3)) for k in "RQT"}

    def run():
        # every order of every 4-subset of a fixed family of calls would be 17160 histories; use all orders of each
        # window of 4 consecutive calls plus the family in forward and reverse order
        hist = [list(ARRAY_CALLS), list(reversed(ARRAY_CALLS))]
        for i in range(0, len(ARRAY_CALLS) - 3):
            hist.extend(list(p) for p in itertools.permutations(ARRAY_CALLS[i:i + 4]))
        if big:
            hist = [list(BIG_CALLS)]
        for h in hist:
            patcher.reset_caches()
            sh = Shadow()
            sh.install()
            try:
                for kind, spec in h:
                    if kind == "S":
                        tu.compute_log_S([arrs[c] for c in spec])
                    else:
                        tu._convolve_two_children(arrs[spec[0]], arrs[spec[1]])
            finally:
                sh.remove()
            res["histories"] += 1
            res["calls"] += sh.calls
            res["hits"] += sh.hits
            if not _discharge(res, sh, [], "arrays", {"history": [f"{k}{s}" for k, s in h]}):
                return
    _, funcs = patcher.entered_functions(run)
    res["sample"] = {"history": [f"{k}({','.join(s)})" for k, s in ARRAY_CALLS[:6]], "histories": res["histories"], "shadowed_calls": res["calls"], "cache_hits": res["hits"]}
    return funcs


def _setup_sampler(job, vals=None):
    from phyclone.tree import FSCRPDistribution, TreeJointDistribution
    from phyclone.mcmc.particle_gibbs import ParticleGibbsTreeSampler
    from phyclone.smc.kernels import FullyAdaptedKernel, SemiAdaptedKernel
    from phyclone.smc.utils import RootPermutationDistribution
    n = job["n"]
    if vals is None:
        a1, a2 = Lin(V.var("alpha1")), Lin(V.var("alpha2"))
        dps = [sym_dp(i, 1, 2) for i in range(n)]
    else:
        a1, a2 = float(Fraction(vals.get("alpha1", "7/10"))), float(Fraction(vals.get("alpha2", "3/2")))
        dps = [float_dp(i, 1, 2, vals) for i in range(n)]
    td = TreeJointDistribution(FSCRPDistribution(a1))
    rng = ForkRNG()
    cls = {"semi": SemiAdaptedKernel, "fully": FullyAdaptedKernel}[job["kernel"]]
    kernel = cls(td, rng, outlier_proposal_prob=0, perm_dist=RootPermutationDistribution())
    sampler = ParticleGibbsTreeSampler(kernel, rng, num_particles=2, resample_threshold=Fraction(job.get("thr") or "0") if vals is None else float(Fraction(job.get("thr") or "0")))
    return dps, td, sampler, a1, a2


def _two_updates(job, dps, td, sampler, a1, a2, start):
    from phyclone.utils.dev import clear_proposal_dist_caches
    td.prior.alpha = a1
    t = sampler.sample_tree(start.copy())
    td.prior.alpha = a2                       # what update_concentration_value does between sweeps
    if job["clear"]:
        clear_proposal_dist_caches()          # the run loop clears at the start of every iteration; library users need not
    t = sampler.sample_tree(t)
    return t


def _sampler(res, job):
    n = job["n"]
    dps, td, sampler, a1, a2 = _setup_sampler(job)
    forests = [f for f in all_forests(n, outliers=False)]
    starts = forests if job.get("all_starts") else [forests[0], forests[-1]]
    sample = {}

    def run():
        for f in starts:
            start = f.to_tree(dps, (1, 2))
            state = {}

            def one():
                patcher.reset_caches()
                sh = Shadow()
                sh.install()
                state["sh"] = sh
                try:
                    _two_updates(job, dps, td, sampler, a1, a2, start)
                finally:
                    sh.remove()
                return sh
            for p in CTX.explore(one):
                sh = p.result
                res["histories"] += 1
                res["calls"] += sh.calls
                res["hits"] += sh.hits
                if not _discharge(res, sh, p.pc, "sampler", {"start": f.describe(), "trace": [c for _, c, _ in p.trace]}):
                    return
            sample.update({"start": f.describe(), "updates": 2, "alpha_changed_between": True, "caches_cleared": job["clear"]})
    _, funcs = patcher.entered_functions(run)
    sample.update({"paths": res["histories"], "shadowed_calls": res["calls"], "cache_hits": res["hits"]})
    res["sample"] = sample
    return funcs


def replay(case):
    """Float twin: same history on the unpatched code, shadowing with the real (xxhash-keyed) caches."""
    job = case["job"]
    vals = case.get("values", {})
    import phyclone.tree.utils as tu
    from phyclone.utils.dev import clear_proposal_dist_caches
    worst = [0.0, None]

    class FloatShadow(Shadow):
        pass

    def close(what, a, b, pending):
        fa, fb = float(a), float(b)
        d = abs(fa - fb) if np.isfinite(fa) or np.isfinite(fb) else 0.0
        if d > worst[0]:
            worst[0], worst[1] = d, what
    global _same_scalar
    saved = _same_scalar
    _same_scalar = close
    try:
        for f in (tu.compute_log_S, tu._convolve_two_children):
            f.cache_clear()
        clear_proposal_dist_caches()
        sh = Shadow()
        if job["kind"] in ("arrays", "arrays1000", "keys"):
            if job["kind"] == "keys":
                arrs = {k: np.log(np.array([[float(Fraction(vals.get(f"{k}_0_{g}", 1 + g + ord(k) % 3))) for g in range(2)]])) for k in "ABCD"}
            elif job["kind"] == "arrays1000":
                arrs = {}
                for k in "RQT":
                    a = np.zeros((1, 1000))
                    for g in ((1, 4) if k == "R" else (0, 3) if k == "Q" else (2, 5)):
                        a[0, g] = math.log(float(Fraction(vals.get(f"{k}_0_{g}", 2 + g))))
                    arrs[k] = a
            else:
                arrs = {k: np.log(np.array([[float(Fraction(vals.get(f"{k}_0_{g}", 1 + g + ord(k) % 3))) for g in range(3)]])) for k in "RQT"}
            sh.install()
            try:
                for item in case["history"]:
                    kind, spec = item[0], item[1:]
                    if kind == "S":
                        tu.compute_log_S([arrs[c] for c in spec])
                    else:
                        tu._convolve_two_children(arrs[spec[0]], arrs[spec[1]])
            finally:
                sh.remove()
        else:
            dps, td, sampler, a1, a2 = _setup_sampler(job, vals=vals)
            start = [f for f in all_forests(job["n"], outliers=False) if f.describe() == case["start"]][0].to_tree(dps, (1, 2))
            it = iter(case["trace"])
            CTX.prefix = [("c", c, None) for c in case["trace"]]
            CTX.trace, CTX.pc, CTX.probs, CTX.pending = [], [], [], []
            sh.install()
            try:
                _two_updates(job, dps, td, sampler, a1, a2, start)
            finally:
                sh.remove()
                CTX.prefix = []
    finally:
        _same_scalar = saved
    if sh.failed:
        return True, {"structural": sh.failed[:2]}
    return worst[0] > 1e-7, {"max_abs_diff": worst[0], "where": worst[1]}


def evidence(tier, seed, results, canaries):
    agg, funcs, obligations, discharged = harness.aggregate(results)
    real = [r for r in results if not r["job"].get("canary")]
    return {
        "level": "other",
        "coverage": {
            "explanation": "Every call of a memoised function inside the explored histories is shadowed by its unmemoised original on the same "
                           "arguments at that moment; z3 decides that the two results are equal for all data and for all pairs of "
                           "concentration values (alpha1 before, alpha2 after the change). Histories: permutations of explicit call "
                           "sequences with repeated and reordered symbolic arrays (order-insensitive and duplicate-sensitive keys), and "
                           "two successive particle-Gibbs updates over every RNG outcome with the concentration changed in between, "
                           "with and without clear_proposal_dist_caches().",
            "functions_encoded": funcs, "obligations": obligations, "discharged": discharged,
            "bounds": {"arrays": "3 symbolic 1x3 arrays, 13 calls, all orders of each window of 4 calls", "sampler": "n=2, N=2, semi- and fully-adapted, two updates (thorough: every start forest, thresholds 0 and 1)"},
            "outside_bounds": ["LRU eviction at 1024/4096 entries", "xxh3 collisions", "bitwise float equality of reordered sums"],
            "evaluations": sum(r.get("histories", 0) for r in real), "distinct_nontrivial": sum(r.get("histories", 0) for r in real if r.get("hits", 0) > 0),
            "rule": "evaluations = call histories executed; non-trivial = histories of jobs in which at least one shadowed call was a cache hit",
            "samples": [r["sample"] for r in real if r.get("sample")][:6],
            "shadowed_calls": sum(r.get("calls", 0) for r in real), "cache_hits": sum(r.get("hits", 0) for r in real),
            "paths": agg["paths"], "queries": agg["queries"], "solver_s": agg["solver_s"],
            "verdicts": {k: agg[k] for k in ("sat", "unsat", "unknown")}, "canaries": canaries, "stubs": patcher.STUBS,
        },
        "assumptions": ["two distinct symbolic concentration values hash differently (a miss, always safe); a key that omits alpha yields a hit that the shadow exposes",
                        "real arithmetic: convolution is commutative; collision-freedom of the content hash is assumed"],
    }
