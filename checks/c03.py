"""C03 - joint log-density implements the FS-CRP model and depends only on the tree.

Executed symbolically: FSCRPDistribution.log_p/log_p_one/compute_both.../_compute_z_term/_compute_r_term,
TreeJointDistribution.log_p/log_p_one/compute_both.../outlier_prior, Tree.multiplicity/node_data/roots/
get_number_of_descendants, DataPoint.__init__ (outlier marginal), compute_outlier_prob, TreeHolder,
Tree.__eq__/__hash__/get_clades.  Symbolic: grid values, alpha, per-point outlier probability.
"""
import itertools
import math
from fractions import Fraction

import numpy as np

from vsym import harness, patcher, mutate
from vsym.build import sym_dp, float_dp, model_values, var_name
from vsym.ctx import CTX, Inconclusive
from vsym.histories import variants
from vsym.scalars import Log, Lin
from vsym.shapes import Forest, all_forests, tree_key
from vsym.spec.fscrp import fscrp_joint
from vsym.vq import V

META = {"property_id": "C03", "level": "other"}

CANARIES = {
    "topology_term_off_by_one": ("phyclone.tree.distributions", "FSCRPDistribution.log_p",
                                 "log_p -= (num_nodes - 1) * np.log(num_nodes + 1)", "log_p -= num_nodes * np.log(num_nodes + 1)"),
    "multiplicity_dropped_fixed_root": ("phyclone.tree.distributions", "FSCRPDistribution.log_p_one",
                                        "log_p -= multiplicity", "log_p -= 0"),
    "outlier_uses_not_prob": ("phyclone.tree.distributions", "TreeJointDistribution.outlier_prior",
                              "log_p += data_point.outlier_prob\n", "log_p += data_point.outlier_prob_not\n"),
}


def apply_canary(name):
    return mutate.mutate(*CANARIES[name])


def _fj(job):
    return Forest([tuple(b) for b in job["blocks"]], [None if p is None else int(p) for p in job["parent"]], job["outliers"], n=job["n"])


def jobs(tier, seed):
    out = []
    nmax = 3 if tier == "quick" else 4
    G = 3
    for n in range(1, nmax + 1):
        for outl in (False, True):
            for f in all_forests(n, outliers=outl):
                if outl and not f.outliers:
                    continue
                if n == 4 and outl and len(f.outliers) > 1:
                    continue
                for D in ((1, 2) if n <= 2 else (1,)):
                    sizes = [1] * n
                    if n == 2 and D == 1:
                        sizes = [2, 1]
                    out.append({"name": f"n{n}-D{D}-{f.describe()}", "blocks": f.blocks, "parent": f.parent, "outliers": f.outliers,
                                "n": n, "G": G if n < 4 else 2, "D": D, "outlier_model": outl, "sizes": sizes,
                                "cost": (len(f.blocks) + 1) ** 3 * D * (2 if outl else 1)})
    out.append({"name": "identity-pairs-n3", "pairs": True, "n": 3, "cost": 40})
    if tier == "thorough":
        out.append({"name": "identity-pairs-n4", "pairs": True, "n": 4, "cost": 400})
    chain_out = Forest([[0], [1]], [None, 0], [2], n=3)
    tworoots = Forest([[0], [1], [2]], [None, None, 0], [], n=3)
    for cname, f, outl in (("topology_term_off_by_one", tworoots, False), ("multiplicity_dropped_fixed_root", tworoots, False),
                           ("outlier_uses_not_prob", chain_out, True)):
        out.append({"name": f"canary-{cname}", "canary": cname, "blocks": f.blocks, "parent": f.parent, "outliers": f.outliers, "n": 3,
                    "G": 3, "D": 1, "outlier_model": outl, "sizes": [1, 1, 1], "cost": 30})
    return out


def _inputs(n, D, G, outl, sizes):
    from phyclone.data import compute_outlier_prob
    dps, ps = [], {}
    for i in range(n):
        if outl:
            p = V.var(f"p{i}")
            CTX.assume(p.lt(V(1)))
            res, res_not = compute_outlier_prob(Lin(p), sizes[i])   # the real function
            dp = sym_dp(i, D, G)
            dp.outlier_prob, dp.outlier_prob_not = res, res_not
            ps[i] = ((p.pow(sizes[i])), (V(1) - p).pow(sizes[i]))
        else:
            dp = sym_dp(i, D, G)
        dps.append(dp)
    return dps, (ps if outl else None)


def work(job):
    if job.get("pairs"):
        return _work_pairs(job)
    from phyclone.tree import FSCRPDistribution, TreeJointDistribution
    from phyclone.smc.swarm import TreeHolder
    forest = _fj(job)
    n, G, D, outl = job["n"], job["G"], job["D"], job["outlier_model"]
    res = {"obligations": 0, "discharged": 0, "cex": [], "nontrivial": len(forest.blocks) > 1 or bool(forest.outliers),
           "histories": []}
    CTX.new_session()
    CTX.sentinel_mode = "fork"

    alpha = V.var("alpha")
    state = {}

    def setup():
        dps, ps = _inputs(n, D, G, outl, job["sizes"])
        td = TreeJointDistribution(FSCRPDistribution(Lin(alpha)))
        # the run loop re-assigns the concentration on the existing object: the same densities must come out
        td_assigned = TreeJointDistribution(FSCRPDistribution(Lin(V.var("alpha_before"))))
        td_assigned.prior.alpha = Lin(alpha)
        state["td_assigned"] = td_assigned
        lik = {i: [[dps[i].value[d, g].e for g in range(G)] for d in range(D)] for i in range(n)}
        ref = fscrp_joint(forest, lik, G, D, alpha, V, outlier_p=ps)
        state.update(dps=dps, td=td, ref=ref)
        return list(variants(forest, dps, (D, G), limit=None if n <= 3 else 4))

    trees, funcs = patcher.entered_functions(setup)
    td, ref = state["td"], state["ref"]
    canon_key = forest.key()
    hashes = set()
    for hname, tree in trees:
        res["histories"].append(hname)
        # structural part (ground): identity of the tree
        res["obligations"] += 2
        k = (tree.get_clades(), frozenset(dp.idx for dp in tree.outliers))
        same = (k == canon_key) and (tree == trees[0][1]) and (hash(tree) == hash(trees[0][1]))
        if same:
            res["discharged"] += 1
        else:
            res["cex"].append({"kind": "identity", "history": hname})
        if sorted(dp.idx for dp in tree.data) == list(range(n)):
            res["discharged"] += 1
        else:
            res["cex"].append({"kind": "data-lost", "history": hname})

        def evaluate(tree=tree):
            a = td.log_p(tree)
            b = td.log_p_one(tree)
            c, d = td.compute_both_log_p_and_log_p_one(tree)
            out = [("log_p", a, 0), ("log_p_one", b, 1), ("fused.log_p", c, 0), ("fused.log_p_one", d, 1)]
            ta = state["td_assigned"]
            # the run loop's pattern: densities are evaluated, the concentration is re-assigned, densities are evaluated again -
            # nothing derived from the earlier value (log alpha, a memoised term) may survive the assignment
            ta.prior.alpha = Lin(V.var("alpha_before"))
            ta.log_p(tree), ta.log_p_one(tree), ta.compute_both_log_p_and_log_p_one(tree)
            ta.prior.alpha = Lin(alpha)
            c2, d2 = ta.compute_both_log_p_and_log_p_one(tree)
            out += [("after-alpha-assignment.log_p", ta.log_p(tree), 0), ("after-alpha-assignment.log_p_one", ta.log_p_one(tree), 1),
                    ("after-alpha-assignment.fused.log_p", c2, 0), ("after-alpha-assignment.fused.log_p_one", d2, 1)]
            last = tree.node_last_added_to
            if last == tree.outlier_node_name or last in tree.nodes:
                # particles hold trees through TreeHolder; it is only ever built on trees whose last-edited clone is
                # known (SMC proposals, restored particles), so the harness does the same
                h = TreeHolder(tree, td, None)
                out += [("holder.log_p", h.log_p, 0), ("holder.log_p_one", h.log_p_one, 1)]
            return out

        (paths, f2) = patcher.entered_functions(lambda: CTX.explore(evaluate))
        funcs = sorted(set(funcs) | set(f2))
        for path in paths:
            for label, val, which in path.result:
                res["obligations"] += 1
                e = val.e if isinstance(val, Log) else V.lift(0) if val == 0 else None
                claim = e.eq(ref[which])
                r, model = CTX.prove(claim, extra=path.pc, use_pc=False)
                if r == "unsat":
                    res["discharged"] += 1
                elif r == "sat":
                    r2, m2 = CTX.prove(claim, extra=path.pc, use_pc=False, box=(Fraction(1, 100), 100))
                    model = m2 if r2 == "sat" else model
                    res["cex"].append({"kind": "density", "which": label, "history": hname, "values": model_values(model)})
                    break
                else:
                    raise Inconclusive(f"density identity unknown ({label}, {hname})")
            if res["cex"]:
                break
        if res["cex"]:
            break
    res["functions"] = funcs
    r, _ = CTX.check([ref[1].gt(0)])
    res["twin_ok"] = (r == "sat")
    res["status"] = "cex" if res["cex"] else "ok"
    for c in res["cex"]:
        c.update({"blocks": forest.blocks, "parent": forest.parent, "outliers": forest.outliers, "n": n, "G": G, "D": D,
                  "outlier_model": outl, "sizes": job["sizes"], "finding_key": "C03:" + c["kind"]})
    res["sample"] = {"forest": forest.describe(), "G": G, "D": D, "outlier_model": outl, "histories": res["histories"],
                     "identities": res["obligations"]}
    return res


def _work_pairs(job):
    """Ground part of the property: trees compare and hash equal exactly when they have the same clades and outliers."""
    from phyclone.tree import Tree
    from phyclone.data.base import DataPoint
    n = job["n"]
    CTX.new_session()
    res = {"obligations": 0, "discharged": 0, "cex": [], "nontrivial": True}

    def run():
        dps = [sym_dp(i, 1, 2) for i in range(n)]
        forests = all_forests(n, outliers=True)
        built = []
        for f in forests:
            vs = list(variants(f, dps, (1, 2), limit=3))
            built.append((f, [t for _, t in vs]))
        for (f1, ts1), (f2, ts2) in itertools.combinations_with_replacement(built, 2):
            same = f1.key() == f2.key()
            for a in ts1[:2]:
                for b in ts2[-2:]:
                    res["obligations"] += 1
                    ok = ((a == b) == same) and ((hash(a) == hash(b)) or not same)
                    if ok:
                        res["discharged"] += 1
                    else:
                        res["cex"].append({"kind": "pair", "f1": f1.describe(), "f2": f2.describe(), "n": n,
                                           "finding_key": "C03:pair"})
        return len(forests)

    nf, funcs = patcher.entered_functions(run)
    res["functions"] = funcs
    res["twin_ok"] = True
    res["status"] = "cex" if res["cex"] else "ok"
    res["sample"] = {"pairs_of_forests": nf * (nf + 1) // 2, "n": n, "ground": True}
    return res


def replay(case):
    from phyclone.tree import FSCRPDistribution, TreeJointDistribution, Tree
    from phyclone.data import compute_outlier_prob
    from phyclone.data.base import DataPoint
    if case["kind"] in ("pair", "identity", "data-lost"):
        # structural: re-run the ground comparison on float data
        n = case["n"]
        dps = [float_dp(i, 1, 2, {}) for i in range(n)]
        if case["kind"] == "pair":
            fs = {f.describe(): f for f in all_forests(n, outliers=True)}
            f1, f2 = fs[case["f1"]], fs[case["f2"]]
            for _, a in variants(f1, dps, (1, 2), limit=3):
                for _, b in variants(f2, dps, (1, 2), limit=3):
                    if (a == b) != (f1.key() == f2.key()) or ((f1.key() == f2.key()) and hash(a) != hash(b)):
                        return True, "equality/hash disagrees with (clades, outliers)"
            return False, "pair agrees"
        forest = Forest([tuple(b) for b in case["blocks"]], case["parent"], case["outliers"], n=n)
        ts = list(variants(forest, dps, (1, 2)))
        for name, t in ts:
            if (t.get_clades(), frozenset(d.idx for d in t.outliers)) != forest.key() or t != ts[0][1] or hash(t) != hash(ts[0][1]):
                return True, f"history {name} gives a different tree"
            if sorted(d.idx for d in t.data) != list(range(n)):
                return True, f"history {name} loses data"
        return False, "all histories agree"
    forest = Forest([tuple(b) for b in case["blocks"]], case["parent"], case["outliers"], n=case["n"])
    n, G, D = case["n"], case["G"], case["D"]
    vals = case["values"]
    alpha = float(Fraction(vals.get("alpha", 1)))
    dps = []
    ps = {} if case["outlier_model"] else None
    for i in range(n):
        dp = float_dp(i, D, G, vals)
        if case["outlier_model"]:
            p = float(Fraction(vals.get(f"p{i}", "1/2")))
            dp.outlier_prob, dp.outlier_prob_not = compute_outlier_prob(p, case["sizes"][i])
            ps[i] = (p ** case["sizes"][i], (1 - p) ** case["sizes"][i])
        dps.append(dp)
    td = TreeJointDistribution(FSCRPDistribution(alpha))
    lik = {i: [[math.exp(dps[i].value[d, g]) for g in range(G)] for d in range(D)] for i in range(n)}
    ref = fscrp_joint(forest, lik, G, D, alpha, float, outlier_p=ps)
    worst = 0.0
    ta = TreeJointDistribution(FSCRPDistribution(alpha * 3.7 + 0.2))
    ta.prior.alpha = alpha
    for name, tree in variants(forest, dps, (D, G)):
        a, b = td.log_p(tree), td.log_p_one(tree)
        c, d = td.compute_both_log_p_and_log_p_one(tree)
        ta.prior.alpha = alpha * 3.7 + 0.2
        ta.log_p(tree), ta.log_p_one(tree), ta.compute_both_log_p_and_log_p_one(tree)
        ta.prior.alpha = alpha
        c2, d2 = ta.compute_both_log_p_and_log_p_one(tree)
        for got, want in ((a, ref[0]), (b, ref[1]), (c, ref[0]), (d, ref[1]), (ta.log_p(tree), ref[0]), (ta.log_p_one(tree), ref[1]), (c2, ref[0]), (d2, ref[1])):
            worst = max(worst, abs(float(got) - math.log(want)))
    return worst > 1e-6, {"max_abs_log_diff": worst}


def evidence(tier, seed, results, canaries):
    agg, funcs, obligations, discharged = harness.aggregate(results)
    real = [r for r in results if not r["job"].get("canary")]
    return {
        "level": "other",
        "coverage": {
            "explanation": "Symbolic execution of the real density code on every forest within the bound, built through several edit "
                           "histories; z3 decides that log_p, log_p_one, the fused variant and TreeHolder's copies equal the FS-CRP "
                           "oracle written from the property statement for all positive data, alpha and outlier probabilities. Both "
                           "branches of the `if not log_p` sentinel are explored. Equality/hash facts are ground (no numeric input).",
            "functions_encoded": funcs,
            "bounds": {"data points": "<= 3 (quick) / 4 (thorough)", "grid": "3 (2 at n=4)", "samples": "1-2 (n<=2), 1 otherwise",
                       "outliers": "every subset (n<=3); at most one at n=4", "cluster sizes": "1 (and 2 for one point at n=2)",
                       "histories per forest": "up to 10: create, reversed, incremental, relabel, copy, dict round-trip, graft, prune-regraft, move data point"},
            "outside_bounds": ["floating point / underflow window", "n > 4, grid > 3"],
            "obligations": obligations, "discharged": discharged,
            "evaluations": len(real), "distinct_nontrivial": sum(1 for r in real if r.get("nontrivial")),
            "rule": "one case per (forest incl. outlier subset, sample count); non-trivial = more than one clone or at least one outlier",
            "samples": [r["sample"] for r in real if "sample" in r][:6],
            "paths": agg["paths"], "queries": agg["queries"], "solver_s": agg["solver_s"],
            "verdicts": {k: agg[k] for k in ("sat", "unsat", "unknown")},
            "canaries": canaries, "reachability_twins": sum(1 for r in real if r.get("twin_ok")),
            "stubs": patcher.STUBS,
        },
        "assumptions": ["positive real data, alpha > 0, outlier probability in (0,1) (real arithmetic)",
                        "the data term is compared with the brute-force marginal of C02's oracle"],
    }
