"""C08 - SMC proposals are normalised, faithfully sampled, complete, correctly weighted.

Executed symbolically: the three *ProposalDistribution classes (_init_dist, log_p, sample, _propose_*),
get_cached_new_tree, kernels' get_proposal_distribution (through their lru caches), Kernel.create_particle /
propose_particle, AbstractSMCSampler._get_log_w, TreeHolder, Particle.
Symbolic: grid values, alpha, per-point outlier prior, outlier proposal probability rho in (0,1).
Random draws are choice points with exact probabilities (vsym.forkrng).
"""
import itertools
import math
from fractions import Fraction

from vsym import harness, patcher, mutate
from vsym.build import sym_dp, float_dp, model_values
from vsym.ctx import CTX, Inconclusive
from vsym.forkrng import ForkRNG
from vsym.scalars import Log, Lin
from vsym.shapes import Forest, all_forests, forest_of_tree, tree_key
from vsym.spec.fscrp import fscrp_joint
from vsym.vq import V

META = {"property_id": "C08", "level": "other"}
KERNELS = ("bootstrap", "semi-adapted", "fully-adapted")

CANARIES = {
    "bootstrap_half_is_third": ("phyclone.smc.kernels.bootstrap", "BootstrapProposalDistribution.log_p",
                                "log_p = np.log((1 - self.outlier_proposal_prob) / 2) - np.log(num_nodes)",
                                "log_p = np.log((1 - self.outlier_proposal_prob) / 3) - np.log(num_nodes)"),
    "semi_new_node_missing_half": ("phyclone.smc.kernels.semi_adapted", "SemiAdaptedProposalDistribution.log_p",
                                   "log_p = self.log_half\n", "log_p = 0 * self.log_half\n"),
    "weight_omits_log_q": ("phyclone.smc.kernels.base", "Kernel.create_particle",
                           "log_w = particle.log_p - parent_particle.log_p + particle.log_pdf - parent_particle.log_pdf - log_q",
                           "log_w = particle.log_p - parent_particle.log_p + particle.log_pdf - parent_particle.log_pdf"),
    "last_step_correction_dropped": ("phyclone.smc.samplers.base", "AbstractSMCSampler._get_log_w",
                                     "return particle.log_w - particle.log_p + particle.log_p_one", "return particle.log_w"),
}


def apply_canary(name):
    return mutate.mutate(*CANARIES[name])


def kernel_cls(name):
    from phyclone.smc.kernels import BootstrapKernel, FullyAdaptedKernel, SemiAdaptedKernel
    return {"bootstrap": BootstrapKernel, "semi-adapted": SemiAdaptedKernel, "fully-adapted": FullyAdaptedKernel}[name]


def _fj(job):
    if job["blocks"] is None:
        return None
    return Forest([tuple(b) for b in job["blocks"]], [None if p is None else int(p) for p in job["parent"]], job["outliers"], n=job["m"])


def jobs(tier, seed):
    out = []
    mmax = 2 if tier == "quick" else 3
    for kern in KERNELS:
        for rho in ("0", "sym"):
            for perm in (True, False):
                # parent None: first data point
                out.append({"name": f"{kern}-rho{rho}-perm{int(perm)}-first", "kernel": kern, "rho": rho, "perm": perm,
                            "blocks": None, "parent": None, "outliers": [], "m": 0, "cost": 1})
                for m in range(1, mmax + 1):
                    for f in all_forests(m, outliers=(rho != "0")):
                        if m == 3 and not perm:
                            continue
                        out.append({"name": f"{kern}-rho{rho}-perm{int(perm)}-{f.describe()}", "kernel": kern, "rho": rho, "perm": perm,
                                    "blocks": f.blocks, "parent": f.parent, "outliers": f.outliers, "m": m,
                                    "cost": (len(f.roots()) + 1) ** 2 * (3 if rho != "0" else 1) * (4 if kern != "bootstrap" else 1)})
    if tier == "quick":
        # one parent with three top-level clones (new clones above 2-of-3 subsets only exist from here on)
        three = Forest([[0], [1], [2]], [None, None, None], [], n=3)
        for kern in KERNELS:
            for rho in ("0", "sym"):
                out.append({"name": f"{kern}-rho{rho}-perm1-{three.describe()}", "kernel": kern, "rho": rho, "perm": True,
                            "blocks": three.blocks, "parent": three.parent, "outliers": [], "m": 3, "cost": 60})
    two = Forest([[0], [1]], [None, None], [], n=2)
    for cname, kern in (("bootstrap_half_is_third", "bootstrap"), ("semi_new_node_missing_half", "semi-adapted"),
                        ("weight_omits_log_q", "fully-adapted"), ("last_step_correction_dropped", "bootstrap")):
        out.append({"name": f"canary-{cname}", "canary": cname, "kernel": kern, "rho": "sym", "perm": True,
                    "blocks": two.blocks, "parent": two.parent, "outliers": [], "m": 2, "cost": 20})
    return out


def placements(parent_forest, m, outliers_allowed):
    """Independent enumeration of every way of placing data point m: into each top-level clone, into a new clone
    above any subset of top-level clones, into the outlier set."""
    res = []
    if parent_forest is None:
        parent_forest = Forest([], [], [], n=0)
    K = len(parent_forest.blocks)
    roots = parent_forest.roots()
    for r in roots:
        blocks = [list(b) for b in parent_forest.blocks]
        blocks[r].append(m)
        res.append(("existing", r, Forest(blocks, parent_forest.parent, parent_forest.outliers, n=m + 1)))
    for k in range(len(roots) + 1):
        for sub in itertools.combinations(roots, k):
            blocks = [list(b) for b in parent_forest.blocks] + [[m]]
            par = [K if i in sub else p for i, p in enumerate(parent_forest.parent)] + [None]
            res.append(("new", sub, Forest(blocks, par, parent_forest.outliers, n=m + 1)))
    if outliers_allowed:
        res.append(("outlier", None, Forest(parent_forest.blocks, parent_forest.parent, list(parent_forest.outliers) + [m], n=m + 1)))
    return res


def _target(forest, lik, G, D, alpha, ps, perm, const):
    """marginal-form joint (x permutation density) - the SMC target before the last-step correction"""
    marg, fixed = fscrp_joint(forest, lik, G, D, alpha, const, outlier_p=ps)
    if perm:
        c = const(Fraction(1, len(forest.linear_extensions())))
        marg, fixed = marg * c, fixed * c
    return marg, fixed


def _apply_placement(tree, kind, where, dp, names_by_block, parent_forest):
    t = tree.copy()
    if kind == "existing":
        t.add_data_point_to_node(dp, names_by_block[frozenset(parent_forest.blocks[where])])
    elif kind == "new":
        t.create_root_node(children=[names_by_block[frozenset(parent_forest.blocks[i])] for i in where], data=[dp])
    else:
        t.add_data_point_to_outliers(dp)
    return t


def _setup(job, float_vals=None):
    """Build kernel, parent particle and next data point - symbolic (float_vals None) or float twins."""
    from phyclone.tree import FSCRPDistribution, TreeJointDistribution, Tree
    from phyclone.smc.swarm import Particle
    from phyclone.smc.utils import RootPermutationDistribution
    G, D = 2, 1
    m = job["m"]
    n = m + 1
    rho_mode = job["rho"]
    sym = float_vals is None
    if sym:
        alpha = V.var("alpha")
        rho = 0
        ps = None
        if rho_mode != "0":
            r = V.var("rho")
            CTX.assume(r.lt(V(1)))
            rho = Lin(r)
            ps = {}
        dps = []
        for i in range(n):
            if rho_mode != "0":
                p = V.var(f"p{i}")
                CTX.assume(p.lt(V(1)))
                q = V(1) - p
                dp = sym_dp(i, D, G)
                dp.outlier_prob, dp.outlier_prob_not = Log(p), Log(q)
                ps[i] = (p, q)
            else:
                dp = sym_dp(i, D, G)
            dps.append(dp)
        td = TreeJointDistribution(FSCRPDistribution(Lin(alpha)))
        lik = {i: [[dps[i].value[d, g].e for g in range(G)] for d in range(D)] for i in range(n)}
        const = V
    else:
        alpha = float(Fraction(float_vals.get("alpha", 1)))
        rho = 0.0
        ps = None
        if rho_mode != "0":
            rho = float(Fraction(float_vals.get("rho", "1/10")))
            ps = {}
        dps = []
        for i in range(n):
            if rho_mode != "0":
                p = float(Fraction(float_vals.get(f"p{i}", "1/5")))
                dp = float_dp(i, D, G, float_vals, outlier_p=p)
                ps[i] = (p, 1 - p)
            else:
                dp = float_dp(i, D, G, float_vals)
            dps.append(dp)
        td = TreeJointDistribution(FSCRPDistribution(alpha))
        lik = {i: [[math.exp(dps[i].value[d, g]) for g in range(G)] for d in range(D)] for i in range(n)}
        const = float
    rng = ForkRNG()
    perm_dist = RootPermutationDistribution() if job["perm"] else None
    kernel = kernel_cls(job["kernel"])(td, rng, outlier_proposal_prob=rho, perm_dist=perm_dist)
    pf = _fj(job)
    parent_tree = parent_particle = None
    if pf is not None:
        parent_tree = pf.to_tree(dps, (D, G))
        parent_particle = Particle(0, None, parent_tree, td, perm_dist)
    return dict(G=G, D=D, n=n, m=m, alpha=alpha, rho=rho, ps=ps, dps=dps, td=td, lik=lik, const=const, kernel=kernel,
                pf=pf, parent_tree=parent_tree, parent_particle=parent_particle, perm_dist=perm_dist)


def _names_by_block(tree):
    return {frozenset(dp.idx for dp in tree.get_data(nm)): nm for nm in tree.nodes}


def work(job):
    from phyclone.smc.swarm import TreeHolder
    from phyclone.smc.samplers import SMCSampler
    from phyclone.tree import Tree
    res = {"obligations": 0, "discharged": 0, "cex": [], "nontrivial": job["m"] >= 1}
    CTX.new_session()
    CTX.sentinel_mode = "assume"
    S = {}

    def setup():
        S.update(_setup(job))
    _, funcs = patcher.entered_functions(setup)
    m, dp = S["m"], S["dps"][S["m"]]
    kernel, pp, pt = S["kernel"], S["parent_particle"], S["parent_tree"]
    rho_on = job["rho"] != "0"
    oracle = placements(S["pf"], m, rho_on)
    oracle_keys = {f.key(): (kind, where, f) for kind, where, f in oracle}
    nb = _names_by_block(pt) if pt is not None else {}

    def cex(kind, model=None, **kw):
        c = {"kind": kind, "finding_key": f"C08:{job['kernel']}:{kind}"}
        if model is not None:
            c["values"] = model_values(model)
        c.update(kw)
        c["job"] = {k: job[k] for k in ("kernel", "rho", "perm", "blocks", "parent", "outliers", "m")}
        res["cex"].append(c)

    def decide_eq(lhs, rhs, kind, extra=(), **kw):
        res["obligations"] += 1
        claim = lhs.eq(rhs)
        r, model = CTX.prove(claim, extra=extra, use_pc=False)
        if r == "unsat":
            res["discharged"] += 1
            return True
        if r == "sat":
            r2, m2 = CTX.prove(claim, extra=extra, use_pc=False, box=(Fraction(1, 100), 100))
            cex(kind, m2 if r2 == "sat" else model, **kw)
            return False
        raise Inconclusive(f"{kind}: unknown")

    # ---- (c) sampling: exact outcome distribution of sample() -----------------------------------
    def draw():
        prop = kernel.get_proposal_distribution(dp, pp, pt)
        t = prop.sample()
        tree = t if isinstance(t, Tree) else t.tree
        return tree_key(tree)

    def before():
        patcher.reset_caches()
    (paths, f2) = patcher.entered_functions(lambda: CTX.explore(draw, before_path=before))
    funcs = sorted(set(funcs) | set(f2))
    if any(p.pc for p in paths):
        raise Inconclusive("unexpected data-dependent fork inside a proposal draw")
    sampled = {}
    for p in paths:
        sampled[p.result] = sampled.get(p.result, V(0)) + p.prob
    # ---- (a) support = independent enumeration ----------------------------------------------------
    res["obligations"] += 1
    if set(sampled) == set(oracle_keys):
        res["discharged"] += 1
    else:
        cex("support", missing=[oracle_keys[k][2].describe() for k in set(oracle_keys) - set(sampled)],
            extra=[str(k) for k in set(sampled) - set(oracle_keys)])
    # ---- log_p of every placement (independent construction of the candidate trees) ---------------
    patcher.reset_caches()

    def logps():
        prop = kernel.get_proposal_distribution(dp, pp, pt)
        out = {}
        for kind, where, f in oracle:
            base = pt if pt is not None else Tree((S["D"], S["G"]))
            t = _apply_placement(base, kind, where, dp, nb, S["pf"])
            h = TreeHolder(t, S["td"], S["perm_dist"])
            try:
                lp = prop.log_p(h)
            except KeyError:
                # a valid placement the proposal has no probability for: the support is incomplete
                out[f.key()] = None
                continue
            if job["kernel"] == "bootstrap":
                lp2 = prop.log_p(t)          # bootstrap accepts plain trees as well
                out[f.key()] = (lp, lp2)
            else:
                out[f.key()] = (lp, lp)
        return out
    lps, f3 = patcher.entered_functions(logps)
    funcs = sorted(set(funcs) | set(f3))
    undefined = [k for k, v in lps.items() if v is None]
    res["obligations"] += 1
    if undefined:
        cex("log_p-undefined", trees=[oracle_keys[k][2].describe() for k in undefined])
        res["functions"] = funcs
        res["twin_ok"] = True
        res["status"] = "cex"
        return res
    res["discharged"] += 1
    total = V(0)
    for k, (lp, lp2) in lps.items():
        e = lp.e if isinstance(lp, Log) else V(1) if lp == 0 else None
        e2 = lp2.e if isinstance(lp2, Log) else V(1) if lp2 == 0 else None
        total = total + e
        # (c) probability of drawing this tree == reported probability
        if k in sampled:
            decide_eq(sampled[k], e, "sample-vs-log_p", tree=oracle_keys[k][2].describe())
        if e2 is not e:
            decide_eq(e2, e, "log_p-tree-vs-holder", tree=oracle_keys[k][2].describe())
    # (b) normalisation
    decide_eq(total, V(1), "normalisation")

    # ---- (d) incremental weight: w * q == target(new) / target(parent) ------------------------------
    patcher.reset_caches()

    def propose():
        part = kernel.propose_particle(dp, pp)
        tree = part.tree
        # final-step correction as the sampler applies it
        smc = SMCSampler.__new__(SMCSampler)
        smc.iteration, smc.num_iterations = 0, 1
        last = smc._get_log_w(part)
        smc.iteration, smc.num_iterations = 0, 2
        notlast = smc._get_log_w(part)
        return tree_key(tree), part.log_w, last, notlast
    (paths, f4) = patcher.entered_functions(lambda: CTX.explore(propose, before_path=before))
    funcs = sorted(set(funcs) | set(f4))
    G, D = S["G"], S["D"]
    if S["pf"] is not None:
        t_par = _target(S["pf"], S["lik"], G, D, S["alpha"], ({i: S["ps"][i] for i in range(m)} if S["ps"] else None), job["perm"], V)[0]
    else:
        t_par = V(1)
    seen = set()
    for p in paths:
        key, log_w, last, notlast = p.result
        if key in seen or key not in oracle_keys:
            continue
        seen.add(key)
        f = oracle_keys[key][2]
        marg, fixed = _target(f, S["lik"], G, D, S["alpha"], S["ps"], job["perm"], V)
        q = lps[key][0]
        qe = q.e if isinstance(q, Log) else V(1)
        decide_eq(log_w.e * qe * t_par, marg, "incremental-weight", tree=f.describe())
        decide_eq(notlast.e, log_w.e, "weight-before-last-step", tree=f.describe())
        decide_eq(last.e * qe * t_par, fixed, "last-step-weight", tree=f.describe())
    res["functions"] = funcs
    r, _ = CTX.check([total.gt(0)])
    res["twin_ok"] = (r == "sat")
    res["status"] = "cex" if res["cex"] else "ok"
    res["paths_sample"] = len(paths)
    res["sample"] = {"kernel": job["kernel"], "rho": job["rho"], "perm": job["perm"],
                     "parent": S["pf"].describe() if S["pf"] is not None else None, "placements": len(oracle),
                     "identities": res["obligations"]}
    return res


def replay(case):
    """Float twin on the unpatched code with the enumerating RNG in float mode."""
    from phyclone.smc.swarm import TreeHolder
    from phyclone.smc.samplers import SMCSampler
    from phyclone.tree import Tree
    from phyclone.utils.dev import clear_proposal_dist_caches
    job = case["job"]
    vals = case.get("values", {})
    S = _setup(job, float_vals=vals)
    m, dp = S["m"], S["dps"][S["m"]]
    kernel, pp, pt = S["kernel"], S["parent_particle"], S["parent_tree"]
    oracle = placements(S["pf"], m, job["rho"] != "0")
    oracle_keys = {f.key(): (kind, where, f) for kind, where, f in oracle}
    nb = _names_by_block(pt) if pt is not None else {}
    kind = case["kind"]

    def draw():
        prop = kernel.get_proposal_distribution(dp, pp, pt)
        t = prop.sample()
        return tree_key(t if isinstance(t, Tree) else t.tree)
    paths = CTX.explore(draw, before_path=clear_proposal_dist_caches)
    sampled = {}
    for p in paths:
        sampled[p.result] = sampled.get(p.result, 0.0) + p.prob
    if kind == "support":
        return set(sampled) != set(oracle_keys), {"sampled": len(sampled), "oracle": len(oracle_keys)}
    clear_proposal_dist_caches()
    prop = kernel.get_proposal_distribution(dp, pp, pt)
    lps = {}
    for knd, where, f in oracle:
        base = pt if pt is not None else Tree((S["D"], S["G"]))
        t = _apply_placement(base, knd, where, dp, nb, S["pf"])
        h = TreeHolder(t, S["td"], S["perm_dist"])
        try:
            lps[f.key()] = (float(prop.log_p(h)), float(prop.log_p(t)) if job["kernel"] == "bootstrap" else None)
        except KeyError:
            if kind == "log_p-undefined":
                return True, {"log_p raises KeyError on the valid placement": f.describe()}
            raise
    if kind == "log_p-undefined":
        return False, {}
    if kind == "normalisation":
        tot = sum(math.exp(a) for a, _ in lps.values())
        return abs(tot - 1) > 1e-9, {"sum": tot}
    if kind == "sample-vs-log_p":
        worst = max(abs(sampled.get(k, 0.0) - math.exp(a)) for k, (a, _) in lps.items())
        return worst > 1e-9, {"max_abs_diff": worst}
    if kind == "log_p-tree-vs-holder":
        worst = max(abs(a - b) for a, b in lps.values() if b is not None)
        return worst > 1e-9, {"max_abs_diff": worst}
    G, D = S["G"], S["D"]
    t_par = 1.0
    if S["pf"] is not None:
        t_par = _target(S["pf"], S["lik"], G, D, S["alpha"], ({i: S["ps"][i] for i in range(m)} if S["ps"] else None), job["perm"], float)[0]

    def propose():
        part = kernel.propose_particle(dp, pp)
        smc = SMCSampler.__new__(SMCSampler)
        smc.iteration, smc.num_iterations = 0, 1
        last = smc._get_log_w(part)
        smc.iteration, smc.num_iterations = 0, 2
        notlast = smc._get_log_w(part)
        return tree_key(part.tree), float(part.log_w), float(last), float(notlast)
    worst = 0.0
    for p in CTX.explore(propose, before_path=clear_proposal_dist_caches):
        key, log_w, last, notlast = p.result
        f = oracle_keys[key][2]
        marg, fixed = _target(f, S["lik"], G, D, S["alpha"], S["ps"], job["perm"], float)
        q = lps[key][0]
        if kind == "incremental-weight":
            worst = max(worst, abs(log_w + q + math.log(t_par) - math.log(marg)))
        elif kind == "weight-before-last-step":
            worst = max(worst, abs(notlast - log_w))
        elif kind == "last-step-weight":
            worst = max(worst, abs(last + q + math.log(t_par) - math.log(fixed)))
    return worst > 1e-7, {"max_abs_log_diff": worst}


def evidence(tier, seed, results, canaries):
    agg, funcs, obligations, discharged = harness.aggregate(results)
    real = [r for r in results if not r["job"].get("canary")]
    return {
        "level": "other",
        "coverage": {
            "explanation": "For each proposal kind, parent state and next data point the real proposal code is executed symbolically; every "
                           "random draw is a choice point with its exact probability. z3 decides, for all data/alpha/outlier parameters: "
                           "support == independent enumeration of placements (ground), sum of reported probabilities == 1, probability of "
                           "drawing each tree == its reported probability, incremental weight * proposal probability == target ratio "
                           "(oracle joint x 1/#orders), and the last-step correction to the fixed-root target.",
            "functions_encoded": funcs,
            "bounds": {"parent states": "None (first point) and every forest on <= 2 (quick) / 3 (thorough) placed points, incl. outlier-only parents when rho > 0",
                       "grid": 2, "samples": 1, "rho": "0 and symbolic in (0,1)", "perm_dist": "with and without"},
            "outside_bounds": ["parents with > 3 points", "floating point"],
            "obligations": obligations, "discharged": discharged,
            "evaluations": len(real), "distinct_nontrivial": sum(1 for r in real if r.get("nontrivial")),
            "rule": "one case per (kernel, rho mode, perm_dist, parent forest); non-trivial = parent holds at least one data point",
            "samples": [r["sample"] for r in real if "sample" in r][:6],
            "paths": agg["paths"], "queries": agg["queries"], "solver_s": agg["solver_s"],
            "verdicts": {k: agg[k] for k in ("sat", "unsat", "unknown")},
            "canaries": canaries, "reachability_twins": sum(1 for r in real if r.get("twin_ok")),
            "stubs": patcher.STUBS,
        },
        "assumptions": ["positive real data, alpha > 0, probabilities in (0,1) (real arithmetic)",
                        "paths on which a symbolic log-density is exactly 0.0 (`if not log_p` sentinel) are cut by assumption here; C03 explores both sides",
                        "targets are the C03 oracle and the brute-force count of compatible orders"],
    }
