"""C11 - trace summaries pick the true maximum and count topologies exactly.

Executed symbolically: write_map_results (both map types), create_topology_dict_from_trace, count_topology,
create_topology_dataframe, write_topology_report, create_topologies_archive.  gzip/pickle reading, get_clone_table
and the MAP output writer are in-memory recorders; pandas runs for real (sort_values / .loc over an object column of
symbolic scores fork on every comparison).  Symbolic: every entry's log_p_one (ties allowed).  Choice points: the
trace skeleton (chains, entries, which forest - possibly a relabelled copy - each entry holds) and the insertion
order of the chains in the results dictionary (completion order of the worker processes).
"""
import io
import itertools
import os
import tarfile
import tempfile
from fractions import Fraction

import z3

from vsym import harness, patcher, mutate
from vsym.build import sym_dp, float_dp, model_values
from vsym.ctx import CTX, Inconclusive
from vsym.scalars import Log, Lin
from vsym.shapes import all_forests, tree_key
from vsym.vq import V

META = {"property_id": "C11", "level": "other"}

CANARIES = {
    "map_scan_keeps_last_chain_only": ("phyclone.process_trace.process_trace", "write_map_results",
                                       "        for curr_chain_num, chain_results in results.items():\n",
                                       "        for curr_chain_num, chain_results in results.items():\n            map_val = float(\"-inf\")\n"),
    "topology_max_not_updated": ("phyclone.process_trace.process_trace", "count_topology",
                                 'topology["log_p_joint_max"] = curr_log_p_one', "pass"),
    "archive_off_by_one": ("phyclone.process_trace.process_trace", "create_topologies_archive",
                           "if topology_rank >= top_trees:", "if topology_rank > top_trees:"),
}


def apply_canary(name):
    return mutate.mutate(*CANARIES[name])


def skeletons(tier):
    """(entries per chain, forest index per entry, chain insertion order)"""
    out = []
    shapes = [(1,), (2,), (1, 1), (2, 1), (2, 2)] if tier == "quick" else [(1,), (2,), (3,), (1, 1), (2, 1), (2, 2), (3, 2), (1, 1, 1)]
    for shape in shapes:
        tot = sum(shape)
        for assign in itertools.product(range(3), repeat=tot):
            if tot >= 4 and len(set(assign)) == 3 and assign[0] > assign[1]:
                continue
            for order in itertools.permutations(range(len(shape))):
                if len(shape) == 3 and order not in ((0, 1, 2), (2, 0, 1)):
                    continue
                out.append((shape, assign, order))
    return out


def jobs(tier, seed):
    sk = skeletons(tier)
    out = []
    chunk = 12
    for i in range(0, len(sk), chunk):
        out.append({"name": f"skeletons-{i}", "lo": i, "hi": min(i + chunk, len(sk)), "tier": tier, "cost": 10})
    for cname in CANARIES:
        out.append({"name": f"canary-{cname}", "canary": cname, "lo": 0, "hi": 10 ** 6, "tier": "quick", "only_shape": [2, 2] if cname != "archive_off_by_one" else [2, 1], "cost": 30})
    return out


def _install_io(results, captured):
    import phyclone.process_trace.process_trace as pt

    class FakeGzMod:
        class GzipFile:
            def __init__(self, *a, **k):
                pass

            def __enter__(self):
                return self

            def __exit__(self, *a):
                return False

    class FakePickle:
        @staticmethod
        def load(fh):
            return results
    import pandas as pd
    old = (pt.gzip, pt.pickle, pt.get_clone_table, pt._create_results_output_files, pt.print_string_to_file)
    pt.gzip, pt.pickle = FakeGzMod, FakePickle
    pt.get_clone_table = lambda data, samples, tree, clusters=None: pd.DataFrame(
        [{"mutation_id": i, "clone_id": c} for i, c in sorted(tree.labels.items())])
    pt._create_results_output_files = lambda a, b, table, tree: captured.update(map_tree=tree)
    pt.print_string_to_file = lambda s, f: open(f, "w").write(s + "\n")
    old_print = getattr(pt, "print", None)
    pt.print = lambda *a, **k: None

    def undo():
        pt.gzip, pt.pickle, pt.get_clone_table, pt._create_results_output_files, pt.print_string_to_file = old
        if old_print is None:
            del pt.print
        else:
            pt.print = old_print
    return undo


def build_results(skel, dps, trees, score, forests=None):
    """score(chain, idx) -> recorded log_p_one of that entry.  Returns (results dict in insertion order, flat entry list)."""
    shape, assign, order = skel
    chains = {}
    flat = []
    pos = 0
    seen = {}
    for c, m in enumerate(shape):
        tr = []
        for i in range(m):
            fi = assign[pos]
            pos += 1
            t = trees[fi].copy()
            if seen.get(fi):
                if forests is not None:
                    # the same tree recorded again with its siblings stored in the other order: after the run loop's
                    # relabel_nodes() its clone numbers differ from the first recording's
                    from vsym.histories import build_create
                    t = build_create(forests[fi], dps, (1, 2), reverse=True)
                t.relabel_nodes()
            seen[fi] = True
            e = {"iter": i * 3, "alpha": 1.0, "log_p_one": score(c, i), "tree": t.to_dict(), "time": 0.0}
            tr.append(e)
            flat.append((c, i, fi, e))
        chains[c] = {"data": dps, "samples": ["s"], "trace": tr, "chain_num": c}
    results = {}
    for c in order:
        results[c] = chains[c]
    if 0 not in results:
        raise AssertionError
    return results, flat


def run_commands(results, top_trees):
    """Runs the three summary computations; returns what each produced."""
    from phyclone.process_trace.process_trace import write_map_results, write_topology_report
    captured = {}
    undo = _install_io(results, captured)
    out = {}
    try:
        write_map_results("in", "table", "tree", map_type="joint-likelihood")
        out["map"] = tree_key(captured["map_tree"])
        write_map_results("in", "table", "tree", map_type="frequency")
        out["map_freq"] = tree_key(captured["map_tree"])
        buf = io.StringIO()
        with tempfile.TemporaryDirectory() as td:
            arch = os.path.join(td, "top.tar.gz")
            import pandas as pd
            rows = {}
            orig_to_csv = pd.DataFrame.to_csv

            def to_csv(self, path_or_buf=None, **kw):
                if path_or_buf is buf:
                    rows["df"] = self.copy()
                    return None
                return orig_to_csv(self, path_or_buf, **kw)
            pd.DataFrame.to_csv = to_csv
            try:
                write_topology_report("in", buf, topologies_archive=arch, top_trees=top_trees)
            finally:
                pd.DataFrame.to_csv = orig_to_csv
            with tarfile.open(arch, "r:gz") as tf:
                out["archive"] = sorted(tf.getnames())
                out["archive_clades"] = {}
                for nm in tf.getnames():
                    if nm.endswith(".nwk"):
                        tid = nm.split("/")[0]
                        nwk = tf.extractfile(nm).read().decode().strip()
                        tab = pd.read_csv(tf.extractfile(f"{tid}/{tid}_results_table.tsv"), sep="\t")
                        out["archive_clades"][tid] = clades_from_files(nwk, tab)
        out["df"] = rows["df"]
    finally:
        undo()
    return out


def clades_from_files(newick, table):
    """clades implied by a Newick string (node names) together with a table mutation -> clone id; None if inconsistent"""
    children = {}
    stack = [[]]
    tok = ""
    s_ = newick.strip().rstrip(";")
    i = 0
    # "(a,(b)c)root" : a node's name follows its closing parenthesis
    def close_name(j):
        k = j
        while k < len(s_) and s_[k] not in ",()":
            k += 1
        return s_[j:k], k
    pos = 0
    def parse(pos):
        kids = []
        if s_[pos] == "(":
            pos += 1
            while True:
                name, sub, pos = parse(pos)
                kids.append(name)
                if s_[pos] == ",":
                    pos += 1
                    continue
                if s_[pos] == ")":
                    pos += 1
                    break
        name, pos = close_name(pos)
        children[name] = kids
        return name, kids, pos
    root, _, _ = parse(0)
    own = {}
    for _, r in table.iterrows():
        own.setdefault(str(int(r["clone_id"])), set()).add(int(r["mutation_id"]))
    if not set(own) - {"-1"} <= set(children):
        return None

    def clade(n):
        s0 = set(own.get(n, set()))
        for c in children.get(n, []):
            s0 |= clade(c)
        return frozenset(s0)
    return frozenset(clade(n) for n in children if n != root), frozenset(own.get("-1", set()))


def _ev(x):
    return x.e if isinstance(x, Log) else None


def work(job):
    res = {"obligations": 0, "discharged": 0, "cex": [], "nontrivial": True, "cases": 0, "paths_total": 0, "nontrivial_cases": 0}
    CTX.new_session()
    CTX.sentinel_mode = "assume"
    dps = [sym_dp(i, 1, 2) for i in range(2)]
    fs = [f for f in all_forests(2, outliers=False)][:3]
    trees = [f.to_tree(dps, (1, 2)) for f in fs]
    sk = skeletons(job.get("tier", "quick"))[job["lo"]:job["hi"]]
    if job.get("only_shape"):
        sk = [s for s in sk if list(s[0]) == job["only_shape"]][:24]
    sample = {}

    def check_path(skel, p, flat, top_trees):
        out = p.result
        pc = list(p.pc)

        def must(claim, kind, **kw):
            res["obligations"] += 1
            if isinstance(claim, bool):
                if claim:
                    res["discharged"] += 1
                    return True
                r, model = CTX.check(pc, want_model=True)
                res["cex"].append({"kind": kind, "values": model_values(model) if model else {}, **kw})
                return False
            r, model = CTX.prove(claim, extra=pc, use_pc=False)
            if r == "unsat":
                res["discharged"] += 1
                return True
            if r == "sat":
                res["cex"].append({"kind": kind, "values": model_values(model), **kw})
                return False
            raise Inconclusive(kind + ": unknown")

        def ge_all(v, others):
            cs = []
            for o in others:
                c = v.ge(o)
                cs.append(z3.BoolVal(c) if isinstance(c, bool) else c)
            return z3.And(cs) if cs else True
        scores = {(c, i): _ev(e["log_p_one"]) for c, i, fi, e in flat}
        by_forest = {}
        for c, i, fi, e in flat:
            by_forest.setdefault(fi, []).append((c, i))
        keys = {fi: tree_key(trees[fi]) for fi in by_forest}
        # MAP by joint likelihood: the returned tree belongs to an entry whose score is >= every entry's
        cands = [fi for fi in by_forest if keys[fi] == out["map"]]
        if not must(bool(cands), "map-tree-not-in-trace"):
            return False
        best_of = z3.Or([_b(ge_all(scores[ci], scores.values())) for fi in cands for ci in by_forest[fi]])
        if not must(best_of, "map-not-maximal"):
            return False
        # MAP by frequency: a topology of maximal count
        cmax = max(len(v) for v in by_forest.values())
        if not must(any(keys[fi] == out["map_freq"] and len(by_forest[fi]) == cmax for fi in by_forest), "frequency-map-not-most-frequent"):
            return False
        df = out["df"]
        if not must(len(df) == len(by_forest) and int(sum(df["count"])) == len(flat), "rows-or-counts"):
            return False
        # each row: count, max score, pointer
        newick = {fi: trees[fi].to_newick_string() for fi in by_forest}
        for fi, members in by_forest.items():
            row = df[df["topology"].map(lambda s: _same_topology(s, trees[fi]))]
            if not must(len(row) == 1 and int(row["count"].iloc[0]) == len(members), "row-count"):
                return False
            mx = _ev(row["log_p_joint_max"].iloc[0])
            if not must(z3.And(_b(ge_all(mx, [scores[m] for m in members])), z3.Or([_b(mx.eq(scores[m])) for m in members])), "row-max"):
                return False
            ptr = (int(row["chain_num"].iloc[0]), int(row["iter"].iloc[0]))
            if not must(ptr in members and _b(scores[ptr].eq(mx)) is not False and True, "row-pointer-not-member"):
                return False
            if not must(scores[ptr].eq(mx), "row-pointer-not-attaining"):
                return False
        # ranked by score, ids t_0, t_1, ...
        vals = [_ev(v) for v in df["log_p_joint_max"]]
        order_ok = z3.And([_b(vals[i].ge(vals[i + 1])) for i in range(len(vals) - 1)]) if len(vals) > 1 else True
        if not must(order_ok, "rows-not-ranked"):
            return False
        if not must(list(df["topology_id"]) == [f"t_{i}" for i in range(len(df))], "topology-ids"):
            return False
        # archive = the first top_trees ranks, two members each
        want = []
        for i in range(min(len(df), top_trees)):
            want += [f"t_{i}", f"t_{i}/t_{i}.nwk", f"t_{i}/t_{i}_results_table.tsv"]
        got = [n for n in out["archive"]]
        if not must(sorted(set(got) - {f"t_{i}" for i in range(len(df))}) == sorted(w for w in want if "/" in w), "archive-contents", detail=str(got)):
            return False
        for tid, cl in out["archive_clades"].items():
            row = df[df["topology_id"] == tid]
            fi = [f for f in by_forest if _same_topology(row["topology"].iloc[0], trees[f])]
            ok = cl is not None and any(cl == keys[f] for f in fi)
            if not must(ok, "archive-table-and-newick-disagree", detail=str(cl)):
                return False
        return True

    def run():
        for skel in sk:
            shape, assign, order = skel
            res["cases"] += 1
            if sum(shape) > 1:
                res["nontrivial_cases"] += 1
            top_trees = 1 if len(set(assign)) > 1 else 5
            state = {}

            def one():
                results, flat = build_results(skel, dps, trees, lambda c, i: Log(V.var(f"l{c}_{i}")), forests=fs)
                state["flat"] = flat
                return run_commands(results, top_trees)
            paths = CTX.explore(one, catch=(Exception,))
            res["paths_total"] += len(paths)
            for p in paths:
                if p.exc is not None:
                    res["obligations"] += 1
                    r, model = CTX.check(p.pc, want_model=True)
                    res["cex"].append({"kind": "exception", "detail": repr(p.exc), "values": model_values(model) if model else {}, "skeleton": _sk(skel)})
                    return
                if not check_path(skel, p, state["flat"], top_trees):
                    res["cex"][-1]["skeleton"] = _sk(skel)
                    return
            if not sample and sum(shape) >= 3:
                sample.update({"chains": list(shape), "forest_of_entry": list(assign), "chain_insertion_order": list(order), "paths": len(paths)})
    _, funcs = patcher.entered_functions(run)
    res["functions"] = funcs
    res["twin_ok"] = res["paths_total"] > 0
    res["status"] = "cex" if res["cex"] else "ok"
    for c in res["cex"]:
        c.update({"finding_key": "C11:" + c["kind"]})
    res["cex"] = res["cex"][:1]
    res["sample"] = sample
    return res


def _sk(skel):
    return [list(skel[0]), list(skel[1]), list(skel[2])]


def _b(x):
    return z3.BoolVal(x) if isinstance(x, bool) else x


def _same_topology(newick, tree):
    return newick == tree.to_newick_string() or _newick_clades(newick) == _newick_clades(tree.to_newick_string())


def _newick_clades(s):
    # topology strings of relabelled copies differ in node names only; compare shapes via the nesting structure
    import re
    return re.sub(r"[0-9]+", "n", s)


def replay(case):
    """Concrete twin: scores from the model, all three commands on the unpatched code, same assertions in floats."""
    import math
    skel = tuple(tuple(x) for x in case["skeleton"])
    vals = {k: float(Fraction(v)) for k, v in case.get("values", {}).items()}
    dps = [float_dp(i, 1, 2, {}) for i in range(2)]
    fs = [f for f in all_forests(2, outliers=False)][:3]
    trees = [f.to_tree(dps, (1, 2)) for f in fs]
    results, flat = build_results(skel, dps, trees, lambda c, i: math.log(vals.get(f"l{c}_{i}", 1.0)), forests=fs)
    top_trees = 1 if len(set(skel[1])) > 1 else 5
    try:
        out = run_commands(results, top_trees)
    except Exception as e:  # noqa
        return True, {"exception": repr(e)}
    scores = {(c, i): e["log_p_one"] for c, i, fi, e in flat}
    by_forest = {}
    for c, i, fi, e in flat:
        by_forest.setdefault(fi, []).append((c, i))
    keys = {fi: tree_key(trees[fi]) for fi in by_forest}
    best = max(scores.values())
    tol = 1e-12
    if not any(keys[fi] == out["map"] and any(scores[m] >= best - tol for m in by_forest[fi]) for fi in by_forest):
        return True, {"map": "not maximal"}
    cmax = max(len(v) for v in by_forest.values())
    if not any(keys[fi] == out["map_freq"] and len(by_forest[fi]) == cmax for fi in by_forest):
        return True, {"map_freq": "not most frequent"}
    df = out["df"]
    if len(df) != len(by_forest) or int(sum(df["count"])) != len(flat):
        return True, {"rows": len(df)}
    for fi, members in by_forest.items():
        row = df[df["topology"].map(lambda s: _same_topology(s, trees[fi]))]
        if len(row) != 1 or int(row["count"].iloc[0]) != len(members):
            return True, {"row-count": fi}
        mx = float(row["log_p_joint_max"].iloc[0])
        if abs(mx - max(scores[m] for m in members)) > tol:
            return True, {"row-max": fi}
        ptr = (int(row["chain_num"].iloc[0]), int(row["iter"].iloc[0]))
        if ptr not in members or abs(scores[ptr] - mx) > tol:
            return True, {"row-pointer": fi}
    v = [float(x) for x in df["log_p_joint_max"]]
    if any(v[i] < v[i + 1] - tol for i in range(len(v) - 1)):
        return True, {"ranking": v}
    want = sorted(w for i in range(min(len(df), top_trees)) for w in (f"t_{i}/t_{i}.nwk", f"t_{i}/t_{i}_results_table.tsv"))
    got = sorted(n for n in out["archive"] if "/" in n)
    if got != want:
        return True, {"archive": got, "want": want}
    for tid, cl in out["archive_clades"].items():
        row = df[df["topology_id"] == tid]
        fi = [f for f in by_forest if _same_topology(row["topology"].iloc[0], trees[f])]
        if cl is None or not any(cl == keys[f] for f in fi):
            return True, {"archive-table-and-newick-disagree": tid}
    return False, "all summary assertions hold"


def evidence(tier, seed, results, canaries):
    agg, funcs, obligations, discharged = harness.aggregate(results)
    real = [r for r in results if not r["job"].get("canary")]
    return {
        "level": "other",
        "coverage": {
            "explanation": "For every trace skeleton within the bound and every insertion order of the chains, the real summary code runs with "
                           "each entry's log_p_one a solver variable; every comparison (arg-max scan, count_topology, pandas sort and row "
                           "lookup) forks under z3. Per feasible path z3 proves: the MAP tree belongs to an entry whose score is >= all "
                           "entries'; each topology row's reported score is the maximum over its entries and its pointer attains it; rows "
                           "are ranked by score. Ground per path: one row per distinct forest (relabelled copies merged), counts = "
                           "multiplicities and sum to the number of entries, frequency-mode MAP is a most frequent topology, topology ids, "
                           "archive members == the requested top ranks.",
            "functions_encoded": funcs, "obligations": obligations, "discharged": discharged,
            "bounds": {"quick": "1-2 chains, <= 2 entries per chain, 3 distinct forests on 2 data points, both chain insertion orders", "thorough": "up to 3 chains / 3 entries per chain"},
            "outside_bounds": ["the real files (gzip, pickle, tar members' contents)", "larger traces"],
            "evaluations": sum(r.get("paths_total", 0) for r in real), "distinct_nontrivial": sum(r.get("nontrivial_cases", 0) for r in real),
            "rule": "evaluations = feasible paths (orderings/ties of the symbolic scores); distinct non-trivial = trace skeletons with >= 2 entries (skeleton = chains x entries x forest per entry x chain insertion order)",
            "samples": [r["sample"] for r in real if r.get("sample")][:6],
            "paths": agg["paths"], "queries": agg["queries"], "solver_s": agg["solver_s"],
            "verdicts": {k: agg[k] for k in ("sat", "unsat", "unknown")}, "canaries": canaries,
            "stubs": patcher.STUBS + ["gzip.GzipFile / pickle.load / get_clone_table / _create_results_output_files / print inside process_trace -> in-memory recorders; tar archive written to a temporary directory and read back"],
        },
        "assumptions": ["ties are real-arithmetic ties", "chain completion order is modelled by the insertion order of the results dictionary"],
    }
