"""C04 - data-point, prune-regraft and subtree moves leave the posterior gamma(t) = exp(log_p_one(t)) invariant.

Executed symbolically: gibbs_mh.py entirely (DataPointSampler, PruneRegraphSampler), ParticleGibbsSubtreeSampler.
sample_tree/_correct_weights (+ everything C01 runs), Tree.copy/remove_data_point_from_node/add_data_point_to_node/
get_subtree/remove_subtree/add_subtree/_relabel_grafted_subtree_nodes/update.  Same construction as C01: exact
transition rows under the enumerating RNG, z3 decides row sums and invariance on every cell.
"""
import math
from fractions import Fraction

from vsym import harness, patcher, mutate, markov
from vsym.build import sym_dp, float_dp, model_values
from vsym.ctx import CTX, Inconclusive
from vsym.forkrng import ForkRNG
from vsym.scalars import Log, Lin
from vsym.shapes import all_forests, tree_key, Forest
from vsym.vq import V
from checks.c01 import ANCHOR, slice_fixed, PROPOSALS

META = {"property_id": "C04", "level": "other"}

CANARIES = {
    "prg_extra_attachment_weight": ("phyclone.mcmc.gibbs_mh", "PruneRegraphSampler.sample_tree",
                                    "log_p = np.array([self.tree_dist.log_p_one(x) for n, x in trees])",
                                    "log_p = np.array([np.log(n + 1) + self.tree_dist.log_p_one(x) for n, x in trees])"),
    "dp_sole_outlier_stuck": ("phyclone.mcmc.gibbs_mh", "DataPointSampler.sample_tree",
                              "if old_node == tree.outlier_node_name or tree.get_data_len(old_node) > 1:",
                              "if tree.get_data_len(old_node) > 1:"),
    "dp_weights_marginal_form": ("phyclone.mcmc.gibbs_mh", "DataPointSampler._sample_tree",
                                 "log_q = np.array([self.tree_dist.log_p_one(x) for x in new_trees])",
                                 "log_q = np.array([self.tree_dist.log_p(x) for x in new_trees])"),
    "subtree_weight_correction_dropped": ("phyclone.mcmc.particle_gibbs", "ParticleGibbsSubtreeSampler._correct_weights",
                                          "w += p.log_p_one", "w += 0"),
}

SLICES3 = {"point0+alpha": ("x0", "alpha"), "point1+point2": ("x1", "x2"), "params": ("alpha", "po", "pn")}
SLICES2 = {"data": ("x",), "params": ("alpha", "po", "pn"), "point0+priors": ("x0", "po", "pn")}


def apply_canary(name):
    return mutate.mutate(*CANARIES[name])


def jobs(tier, seed):
    out = []

    def add(move, outl, n, kern=None, wiring=None, fixed=None, slice=None, cost=1, N=2, thr="1/2", **kw):
        nm = f"{move}-out{int(outl)}-n{n}" + (f"-{kern}-{wiring}-N{N}-thr{thr}" if kern else "") + (f"-slice:{slice}" if slice else "")
        j = {"name": nm, "move": move, "outliers": outl, "n": n, "G": 2, "kernel": kern, "wiring": wiring, "fixed": fixed or {},
             "slice": slice, "cost": cost, "N": N, "thr": thr}
        j.update(kw)
        out.append(j)
    for move in ("dp", "prg"):
        add(move, False, 2, cost=2)
        for sname, pref in SLICES2.items():
            add(move, True, 2, fixed=slice_fixed(pref, 2, 2, True), slice=sname, cost=5)
        for sname, pref in SLICES3.items():
            if sname == "params":
                add(move, False, 3, fixed=slice_fixed(("alpha",), 3, 2, False), slice="alpha", cost=40)
            else:
                add(move, False, 3, fixed=slice_fixed(pref, 3, 2, False), slice=sname, cost=40)
            if tier == "thorough" or sname == "point0+alpha":
                add(move, True, 3, fixed=slice_fixed(pref, 3, 2, True), slice=sname, cost=120)
    # two samples (first sample's data and alpha symbolic, second sample at the anchor)
    for move in ("dp", "prg"):
        add(move, False, 3, fixed=slice_fixed(("alpha", "x0_0", "x1_0", "x2_0"), 3, 2, False, D=2), slice="sample0+alpha", cost=40, D=2)
        out[-1]["name"] += "-D2"
        add(move, True, 2, fixed=slice_fixed(("alpha", "x0_0", "x1_0"), 2, 2, True, D=2), slice="sample0+alpha", cost=10, D=2)
        out[-1]["name"] += "-D2"
    # mixed per-point outlier probabilities: point 0 carries the `outlier_prob == 0` sentinel (its prior factor is 1 wherever it sits)
    for move in ("dp", "prg"):
        add(move, True, 2, fixed=slice_fixed(("x", "alpha"), 2, 2, True), slice="data+alpha", cost=5, no_prior=[0])
        out[-1]["name"] += "-point0-without-outlier-prior"
        add(move, True, 3, fixed=slice_fixed(("x0", "alpha"), 3, 2, True), slice="point0+alpha", cost=60, no_prior=[0])
        out[-1]["name"] += "-point0-without-outlier-prior"
    for kern in PROPOSALS:
        for wiring in ("library", "run"):
            add("subtree", False, 2, kern=kern, wiring=wiring, cost=3)
            add("subtree", False, 2, kern=kern, wiring=wiring, thr="1", cost=4)
            for sname, pref in SLICES2.items():
                if tier == "quick" and sname != "params" and wiring == "library":
                    continue
                add("subtree", True, 2, kern=kern, wiring=wiring, fixed=slice_fixed(pref, 2, 2, True), slice=sname, cost=15)
    # subtree move at n = 3: conditional block kernel (weight correction) + full move (known finding)
    blk = [("fully", "library")] if tier == "quick" else [(k, w) for k in PROPOSALS for w in ("library", "run")]
    for kern, wiring in blk:
        add("subtree-block", False, 3, kern=kern, wiring=wiring, fixed=slice_fixed(("x0", "alpha"), 3, 2, False), slice="point0+alpha", cost=80)
        # full move at n=3: thousands of paths per state make even the row-sum identity too large for z3 with 3 unknowns
        # (unknown after 500 s, probed); decided with alpha as the only unknown
        add("subtree", False, 3, kern=kern, wiring=wiring, fixed=slice_fixed(("alpha",), 3, 2, False), slice="alpha", cost=200)
    for cname, move, outl, n in (("prg_extra_attachment_weight", "prg", False, 2), ("dp_sole_outlier_stuck", "dp", True, 2),
                                 ("dp_weights_marginal_form", "dp", False, 3)):
        fx = slice_fixed(SLICES2["params"], 2, 2, True) if outl else (slice_fixed(("alpha",), 3, 2, False) if n == 3 else {})
        add(move, outl, n, fixed=fx, cost=5, canary=cname)
        out[-1]["name"] = f"canary-{cname}"
    add("subtree", False, 2, kern="fully", wiring="library", cost=5, canary="subtree_weight_correction_dropped")
    out[-1]["name"] = "canary-subtree_weight_correction_dropped"
    return out


def setup(job, vals=None):
    from phyclone.tree import FSCRPDistribution, TreeJointDistribution
    from phyclone.mcmc.gibbs_mh import DataPointSampler, PruneRegraphSampler
    from phyclone.mcmc.particle_gibbs import ParticleGibbsSubtreeSampler
    from phyclone.smc.kernels import BootstrapKernel, FullyAdaptedKernel, SemiAdaptedKernel
    from phyclone.smc.utils import RootPermutationDistribution
    import phyclone.run as prun
    n, G, outl = job["n"], job["G"], job["outliers"]
    D = job.get("D") or 1
    sym = vals is None
    fixed = job.get("fixed") or {}
    dps = []
    if sym:
        alpha = Lin(V(Fraction(fixed["alpha"]))) if "alpha" in fixed else Lin(V.var("alpha"))
        for i in range(n):
            dp = sym_dp(i, D, G, fixed=fixed)
            if outl and i in (job.get("no_prior") or []):
                pass                                   # DataPoint defaults: outlier_prob = 0 (sentinel), outlier_prob_not = 1
            elif outl and job.get("p_one"):
                dp.outlier_prob, dp.outlier_prob_not = Log(V(1)), Log(V(0))
            elif outl and f"po{i}" in fixed:
                dp.outlier_prob, dp.outlier_prob_not = Log(V(Fraction(fixed[f"po{i}"]))), Log(V(Fraction(fixed[f"pn{i}"])))
            elif outl:
                po = V.var(f"po{i}")
                CTX.assume(po.lt(V(1)))
                dp.outlier_prob, dp.outlier_prob_not = Log(po), Log(V.var(f"pn{i}"))
            dps.append(dp)
    else:
        alpha = float(Fraction(vals.get("alpha", 1)))
        for i in range(n):
            dp = float_dp(i, D, G, vals)
            if outl and job.get("p_one"):
                dp.outlier_prob, dp.outlier_prob_not = 0.0, -math.inf
            elif outl and i not in (job.get("no_prior") or []):
                dp.outlier_prob = math.log(float(Fraction(vals.get(f"po{i}", "1/5"))))
                dp.outlier_prob_not = math.log(float(Fraction(vals.get(f"pn{i}", "4/5"))))
            dps.append(dp)
    td = TreeJointDistribution(FSCRPDistribution(alpha))
    rng = ForkRNG()
    move = job["move"]
    if move == "dp":
        if job.get("wiring") == "run":
            sampler = prun.setup_samplers(None, 2, 0.2 if outl else 0, 0.5, rng, td).dp_sampler
        else:
            sampler = DataPointSampler(td, rng, outliers=outl)
    elif move == "prg":
        sampler = PruneRegraphSampler(td, rng)
    else:
        thr = Fraction(job["thr"]) if sym else float(Fraction(job["thr"]))
        if job["wiring"] == "run":
            kernel = prun.setup_kernel(0.2 if outl else 0, PROPOSALS[job["kernel"]], rng, td)
            sampler = prun.setup_samplers(kernel, job["N"], 0.2 if outl else 0, thr, rng, td).subtree_sampler
        else:
            cls = {"bootstrap": BootstrapKernel, "semi": SemiAdaptedKernel, "fully": FullyAdaptedKernel}[job["kernel"]]
            kernel = cls(td, rng, outlier_proposal_prob=(0.1 if outl else 0), perm_dist=RootPermutationDistribution())
            sampler = ParticleGibbsSubtreeSampler(kernel, rng, num_particles=job["N"], resample_threshold=thr)
    forests = all_forests(n, outliers=outl)
    states = [(f.key(), f.to_tree(dps, (D, G))) for f in forests]
    return dict(dps=dps, td=td, sampler=sampler, states=states, forests=forests)


# ---- the subtree move's conditional block kernel -------------------------------------------------------------
def blocks_of(forests):
    """All (remainder R, attachment clone p, moved data S) blocks: S = data of one clone and its descendants (non-root
    attachment), as the subtree move selects them.  Returns dict block key -> list of forests in the block."""
    out = {}
    for f in forests:
        if f.outliers:
            continue
        for i in range(len(f.blocks)):
            if f.parent[i] is None:
                continue
            sub = set(f.subtree(i))
            S = frozenset(x for j in sub for x in f.blocks[j])
            rest = [j for j in range(len(f.blocks)) if j not in sub]
            R = frozenset((frozenset(f.blocks[j]), frozenset(f.blocks[f.parent[j]]) if f.parent[j] is not None else None) for j in rest)
            key = (R, frozenset(f.blocks[f.parent[i]]), S)
            out.setdefault(key, None)
    res = {}
    for key in out:
        R, pblock, S = key
        members = []
        for f in forests:
            if f.outliers:
                continue
            blocks = {frozenset(b): j for j, b in enumerate(f.blocks)}
            if pblock not in blocks:
                continue
            # f is in the block iff removing all clones whose data lie in S leaves exactly R and every top clone of the S-part hangs under p
            spart = [j for j, b in enumerate(f.blocks) if set(b) <= S]
            if frozenset(x for j in spart for x in f.blocks[j]) != S:
                continue
            rest = [j for j in range(len(f.blocks)) if j not in spart]
            Rf = frozenset((frozenset(f.blocks[j]), frozenset(f.blocks[f.parent[j]]) if f.parent[j] is not None else None) for j in rest)
            if Rf != R:
                continue
            ok = True
            for j in spart:
                pj = f.parent[j]
                if pj is None or (pj not in spart and frozenset(f.blocks[pj]) != pblock):
                    ok = False
            if ok:
                members.append(f)
        res[key] = members
    return res


def block_move(sampler, tree, pblock, S):
    """Run the subtree sampler's own machinery (sample_swarm + _correct_weights + final selection) on the forest of
    S-clones hanging under the clone with data `pblock` - the move conditional on that selection."""
    names = {frozenset(dp.idx for dp in tree.get_data(nm)): nm for nm in tree.nodes}
    parent = names[pblock]
    tops = [nm for nm in tree.get_children(parent) if set(dp.idx for dp in tree.get_data(nm)) <= S]
    from phyclone.tree import Tree
    subtree = Tree(tree.grid_size)
    rest = tree
    for nm in tops:
        st = rest.get_subtree(nm)
        rest.remove_subtree(st)
        subtree.add_subtree(st, parent=None)
    subtree.update()
    swarm = sampler.sample_swarm(subtree)
    swarm = sampler._correct_weights(parent, swarm, rest)
    return sampler._sample_tree_from_swarm(swarm)


def work(job):
    res = {"obligations": 0, "discharged": 0, "cex": [], "nontrivial": True, "cells": 0}
    CTX.new_session()
    CTX.sentinel_mode = "assume"
    S = {}
    move = job["move"]
    fk = f"C04:{move}" + (f":{job['wiring']}:{job['kernel']}" if job.get("kernel") else "") + f":outliers={int(job['outliers'])}:n={job['n']}"
    if move == "subtree" and job["n"] >= 3:
        # one recorded finding covers the full subtree move from n = 3 on, whatever the proposal or wiring (see known_findings.json);
        # the n = 2 move, the conditional block kernel and every other kind of failure keep their own keys
        fk = "C04:subtree:full-move:n>=3"

    def cex(kind, model=None, **kw):
        c = {"kind": kind, "finding_key": fk + (":" + kind if kind != "not-invariant" else ""),
             "job": {k: job.get(k) for k in ("move", "kernel", "wiring", "outliers", "thr", "N", "n", "G", "fixed", "no_prior", "D", "p_one")}}
        c["values"] = model_values(model) if model is not None else {}
        c.update(kw)
        res["cex"].append(c)

    def check_rows(gam, rows, states_n):
        cell_list = markov.cells(rows)
        res["cells"] += len(cell_list)
        for lits, K in cell_list:
            for t, row in K.items():
                res["obligations"] += 1
                s = V(0)
                for v in row.values():
                    s = s + v
                r, model = CTX.prove(s.eq(V(1)), extra=lits, use_pc=False)
                if r == "unsat":
                    res["discharged"] += 1
                elif r == "sat":
                    cex("row-not-stochastic", model)
                    return
                else:
                    raise Inconclusive("row sum query unknown")
            res["obligations"] += states_n
            r, model = markov.invariance_on_cell(gam, K, lits, timeout_ms=int(job.get("inv_timeout", 120)) * 1000)
            if r == "unsat":
                res["discharged"] += states_n
            elif r == "sat":
                cex("not-invariant", model)
                return
            else:
                raise Inconclusive("invariance query unknown")

    def run():
        S.update(setup(job))
        S["gam"] = {k: S["td"].log_p_one(t).e for k, t in S["states"]}
        if move == "subtree-block":
            total_paths = 0
            for (R, pblock, Sset), members in blocks_of(S["forests"]).items():
                keys = {f.key() for f in members}
                st = [(k, t) for k, t in S["states"] if k in keys]
                rows, info = markov.explore_rows(st, lambda t: block_move(S["sampler"], t, pblock, Sset), before_path=patcher.reset_caches)
                total_paths += info["paths"]
                if info["unknown_targets"] or info["exceptions"]:
                    cex("escapes-state-space", detail=str((info["unknown_targets"][:2], info["exceptions"][:2])))
                    return total_paths
                check_rows({k: S["gam"][k] for k, _ in st}, rows, len(st))
                if res["cex"]:
                    return total_paths
            return total_paths
        rows, info = markov.explore_rows(S["states"], S["sampler"].sample_tree, before_path=patcher.reset_caches)
        res["obligations"] += 1
        if info["unknown_targets"] or info["exceptions"]:
            cex("escapes-state-space", detail=str((info["unknown_targets"][:2], info["exceptions"][:2])))
        else:
            res["discharged"] += 1
            check_rows(S["gam"], rows, len(S["states"]))
        return info["paths"]
    npaths, funcs = patcher.entered_functions(run)
    res["functions"] = funcs
    r, _ = CTX.check([S["gam"][S["states"][0][0]].gt(0)])
    res["twin_ok"] = (r == "sat")
    res["status"] = "cex" if res["cex"] else "ok"
    res["sample"] = {"config": job["name"], "states": len(S["states"]), "paths": npaths, "cells": res["cells"]}
    return res


def replay(case):
    from phyclone.utils.dev import clear_proposal_dist_caches
    job = case["job"]
    vals = dict(job.get("fixed") or {})
    vals.update(case.get("values", {}))
    S = setup(job, vals=vals)
    gam = {k: math.exp(S["td"].log_p_one(t)) for k, t in S["states"]}
    if job["move"] == "subtree-block":
        worst = 0.0
        for (R, pblock, Sset), members in blocks_of(S["forests"]).items():
            keys = {f.key() for f in members}
            st = [(k, t) for k, t in S["states"] if k in keys]
            rows, info = markov.explore_rows(st, lambda t: block_move(S["sampler"], t, pblock, Sset), before_path=clear_proposal_dist_caches)
            if info["unknown_targets"] or info["exceptions"]:
                return True, {"escapes": str(info)[:300]}
            resid, rs = markov.float_residual({k: gam[k] for k, _ in st}, rows)
            worst = max(worst, resid, rs)
        return worst > 1e-9, {"max_block_residual": worst}
    rows, info = markov.explore_rows(S["states"], S["sampler"].sample_tree, before_path=clear_proposal_dist_caches)
    if info["unknown_targets"] or info["exceptions"]:
        return True, {"escapes": str(info)[:300]}
    resid, rs = markov.float_residual(gam, rows)
    return (resid > 1e-9 or rs > 1e-9), {"max_abs_piK_minus_pi": resid, "max_rowsum_dev": rs}


def evidence(tier, seed, results, canaries):
    agg, funcs, obligations, discharged = harness.aggregate(results)
    real = [r for r in results if not r["job"].get("canary")]
    return {
        "level": "other",
        "coverage": {
            "explanation": "Exact symbolic transition rows of each auxiliary move from every tree of the independently enumerated state "
                           "space (enumerating RNG); z3 decides row sums == 1 and sum_t gamma(t)K(t,t') == gamma(t') per cell. The sweep of "
                           "_run_main_sampler is a composition of these kernels, so invariance of each gives invariance of any interleaving. "
                           "For the subtree move at n=3 the conditional block kernel (sample_swarm + _correct_weights given the selected "
                           "block) is checked separately from the full move.",
            "functions_encoded": funcs,
            "bounds": {"data-point / prune-regraft": "n=2 fully symbolic (outliers off) or 3 slices (on); n=3 on coordinate slices (thorough: also fully symbolic without outliers)",
                       "subtree PG": "n=2, N=2, thresholds {1/2, 1}, three proposals x {library, run} wiring; n=3 on one slice", "grid": 2, "samples": 1},
            "outside_bounds": ["n > 3", "floating point", "several samples"],
            "obligations": obligations, "discharged": discharged,
            "evaluations": agg["paths"], "distinct_nontrivial": len({r["job"]["name"] for r in real}),
            "rule": "evaluations = sampler paths executed; distinct cases = (move, outliers, n, proposal, wiring, slice) configurations, all non-trivial",
            "samples": [r["sample"] for r in real if "sample" in r][:8],
            "paths": agg["paths"], "queries": agg["queries"], "solver_s": agg["solver_s"],
            "verdicts": {k: agg[k] for k in ("sat", "unsat", "unknown")},
            "canaries": canaries, "reachability_twins": sum(1 for r in real if r.get("twin_ok")),
            "stubs": patcher.STUBS,
        },
        "assumptions": ["gamma(t) from the real log_p_one (C03)", "positive real data, alpha > 0, outlier prior factors > 0 (independent unknowns); real arithmetic",
                        "slices: unknowns not listed as symbolic are held at the rationals in checks/c01.py:ANCHOR",
                        "zero-sentinel paths cut by assumption (C03 explores both sides)"],
    }
