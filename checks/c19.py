"""C19 - a run on valid input completes and records only finite, complete trees.

One inductive step per move instead of whole-chain products: from every valid state (every forest, every outlier
subset incl. all and none) each of UnconditionalSMCSampler.sample_tree, ParticleGibbsTreeSampler,
ParticleGibbsSubtreeSampler, DataPointSampler, PruneRegraphSampler is run under the enumerating RNG with symbolic
data for the boundary configurations (one or two particles, resampling threshold 0 and 1, outlier probability 0 or
positive, three proposals); then run_phyclone_chain itself on one and two data points.  On every path: no exception,
the result is a well-formed forest over all data, log_p_one is finite (its exponential provably > 0).
"""
from fractions import Fraction

from vsym import harness, patcher, mutate, wellformed
from vsym.build import sym_dp, float_dp, model_values
from vsym.ctx import CTX, Inconclusive
from vsym.forkrng import ForkRNG
from vsym.scalars import Log, Lin
from vsym.shapes import all_forests
from vsym.vq import V
from checks import c01, c04, c13

META = {"property_id": "C19", "level": "other"}

CANARIES = {
    "subtree_move_needs_a_clone": ("phyclone.mcmc.particle_gibbs", "ParticleGibbsSubtreeSampler.sample_tree", "if len(nodes) == 0:", "if False:"),
    "resample_after_last_point": ("phyclone.smc.samplers.conditional", "ConditionalSMCSampler._resample_swarm",
                                  "if self.iteration >= self.num_iterations:", "if False:"),
}


def apply_canary(name):
    return mutate.mutate(*CANARIES[name])


def jobs(tier, seed):
    out = []
    ns = (1, 2) if tier == "quick" else (1, 2, 3)
    for n in ns:
        for outl in (False, True):
            for move in ("dp", "prg"):
                out.append({"name": f"step-{move}-n{n}-out{int(outl)}", "kind": "step", "move": move, "n": n, "G": 2, "outliers": outl, "kernel": None,
                            "wiring": None, "N": 2, "thr": "1/2", "fixed": {}, "cost": 5 * n})
            for kern in c01.PROPOSALS:
                for move in ("pg", "subtree", "burnin"):
                    for N in (1, 2):
                        for thr in ("0", "1"):
                            if n == 3 and (N == 2 and thr == "1"):
                                continue
                            if n == 3 and N == 2 and move == "burnin" and outl:
                                continue        # > 25 min per job (probed); the single-particle variant stays
                            out.append({"name": f"step-{move}-{kern}-n{n}-out{int(outl)}-N{N}-thr{thr}", "kind": "step", "move": move, "n": n, "G": 2,
                                        "outliers": outl, "kernel": kern, "wiring": "run", "N": N, "thr": thr, "fixed": {}, "cost": 10 * n ** 3 * N})
    # boundary of the accepted range: --outlier-prob 1.0 (log p = 0, log(1-p) = -inf)
    for kern in c01.PROPOSALS:
        for move in ("pg", "burnin", "subtree"):
            out.append({"name": f"step-{move}-{kern}-n2-outlier-prob-one", "kind": "step", "move": move, "n": 2, "G": 2, "outliers": True, "p_one": True,
                        "kernel": kern, "wiring": "run", "N": 2, "thr": "0", "fixed": {}, "cost": 20})
    for move in ("dp", "prg"):
        out.append({"name": f"step-{move}-n2-outlier-prob-one", "kind": "step", "move": move, "n": 2, "G": 2, "outliers": True, "p_one": True,
                    "kernel": None, "wiring": None, "N": 2, "thr": "1/2", "fixed": {}, "cost": 5})
    if tier == "quick":
        # three data points with a single particle (only the retained path and the final draw remain): cheap, and the first size at
        # which the subtree move can select a real clone below a single top-level clone while outliers exist
        for outl in (False, True):
            for kern in c01.PROPOSALS:
                for move in ("pg", "subtree", "burnin"):
                    out.append({"name": f"step-{move}-{kern}-n3-out{int(outl)}-N1-thr0", "kind": "step", "move": move, "n": 3, "G": 2,
                                "outliers": outl, "kernel": kern, "wiring": "run", "N": 1, "thr": "0", "fixed": {}, "cost": 60})
    for n in (1, 2):
        for kern in tuple(c01.PROPOSALS):
            for outl in (False, True):
                for sub in (0, 1):
                    # two data points with two particles cost minutes per configuration (thousands of whole-chain paths):
                    # quick tier drives the chain with one particle there, thorough adds two particles
                    for N in ((1, 2) if (n == 1 or tier == "thorough") else (1,)):
                        for thr in (("0", "1") if n == 1 else ("1/2",)):
                            if n == 2 and N == 2 and (kern != "semi" or outl):
                                continue        # with outliers the whole-chain exploration exceeds 100000 paths
                            out.append({"name": f"chain-{kern}-n{n}-out{int(outl)}-subtree{sub}-N{N}-thr{thr}", "kind": "chain", "kernel": kern, "n": n,
                                        "outliers": outl, "subtree": sub, "N": N, "thr": thr, "burnin": 1, "iters": 1 if n == 2 else 2, "conc": True,
                                        "cost": 400 if (n == 2 and N == 2) else 5 * n, "budget_s": 6000 if (n == 2 and N == 2) else None})
    out.append({"name": "canary-subtree_move_needs_a_clone", "canary": "subtree_move_needs_a_clone", "kind": "step", "move": "subtree", "n": 2, "G": 2,
                "outliers": True, "kernel": "semi", "wiring": "run", "N": 2, "thr": "0", "fixed": {}, "cost": 10})
    out.append({"name": "canary-resample_after_last_point", "canary": "resample_after_last_point", "kind": "chain", "kernel": "semi", "n": 1, "outliers": False,
                "subtree": 0, "N": 2, "thr": "1", "burnin": 0, "iters": 1, "conc": False, "cost": 5})
    return out


def _finite(val):
    """log-density finite <=> its exponential is provably > 0"""
    if not isinstance(val, Log):
        return val == val and val not in (float("inf"), float("-inf"))
    return val.pos or CTX.prove_positive(val.e)


def _setup_step(job, vals=None):
    from phyclone.smc.samplers import UnconditionalSMCSampler
    if job["move"] in ("dp", "prg", "subtree"):
        S = c04.setup(job, vals=vals)
    else:
        S = c01.setup(job, vals=vals)
        if job["move"] == "burnin":
            thr = Fraction(job["thr"]) if vals is None else float(Fraction(job["thr"]))
            S["sampler"] = UnconditionalSMCSampler(S["sampler"].kernel, num_particles=job["N"], resample_threshold=thr)
    return S


def _work_step(job, res):
    n = job["n"]

    def run():
        S = _setup_step(job)
        for key, tree in S["states"]:
            def one(tree=tree):
                t = S["sampler"].sample_tree(tree.copy())
                probs = wellformed.problems(t, expected_idxs=range(n))
                if not probs and not _finite(S["td"].log_p_one(t)):
                    probs = ["log_p_one not provably finite"]
                return probs
            for p in CTX.explore(one, before_path=patcher.reset_caches, catch=(Exception,)):
                res["paths_total"] += 1
                res["obligations"] += 1
                bad = repr(p.exc) if p.exc is not None else (p.result[:2] if p.result else None)
                if bad:
                    r, model = CTX.check(p.pc, want_model=True)
                    res["cex"].append({"kind": "exception" if p.exc is not None else "bad-result", "detail": str(bad), "state": str(key),
                                       "values": model_values(model) if model else {}, "trace": [c for _, c, _ in p.trace]})
                    return len(S["states"])
                res["discharged"] += 1
        return len(S["states"])
    nstates, funcs = patcher.entered_functions(run)
    res["sample"] = {"step": job["name"], "start_states": nstates, "paths": res["paths_total"]}
    return funcs


def _chain(job, vals=None):
    import phyclone.run as prun
    sym = vals is None
    n = job["n"]
    dps = []
    for i in range(n):
        if sym:
            dp = sym_dp(i, 1, 2)
            if job["outliers"]:
                po = V.var(f"po{i}")
                CTX.assume(po.lt(V(1)))
                dp.outlier_prob, dp.outlier_prob_not = Log(po), Log(V.var(f"pn{i}"))
        else:
            dp = float_dp(i, 1, 2, vals)
            if job["outliers"]:
                import math
                dp.outlier_prob, dp.outlier_prob_not = math.log(0.2), math.log(0.8)
        dps.append(dp)
    thr = Fraction(job["thr"]) if sym else float(Fraction(job["thr"]))
    alpha0 = Lin(V.var("alpha_0")) if sym else 1.3
    results = prun.run_phyclone_chain(job["burnin"], job["conc"], alpha0, dps, float("inf"), job["iters"], job["N"], 1, 1,
                                      0.2 if job["outliers"] else 0, 10 ** 9, c01.PROPOSALS[job["kernel"]], thr, ForkRNG(), ["s"], 1, 0, job["subtree"])
    return results


def _install_chain_stubs(sym=True):
    import phyclone.run as prun
    import phyclone.mcmc.concentration as conc
    old_print = getattr(prun, "print", None)
    prun.print = lambda *a, **k: None
    old = (conc.beta, conc.bernoulli, conc.gamma)
    if sym:
        rec = c13.Recorder()
        undo_rec = rec.install()
    else:
        class B:
            rvs = staticmethod(lambda a=None, b=None, random_state=None: 0.4)

        class Be:
            rvs = staticmethod(lambda p, random_state=None: 1)

        class G:
            rvs = staticmethod(lambda shape, scale=None, random_state=None: 0.8)
        conc.beta, conc.bernoulli, conc.gamma = B, Be, G

        def undo_rec():
            conc.beta, conc.bernoulli, conc.gamma = old

    def undo():
        undo_rec()
        if old_print is None:
            del prun.print
        else:
            prun.print = old_print
    return undo


def _work_chain(job, res):
    from phyclone.tree import Tree
    undo = _install_chain_stubs()
    try:
        def one():
            results = _chain(job)
            probs = []
            for e in results["trace"]:
                t = Tree.from_dict(e["tree"])
                probs += wellformed.problems(t, expected_idxs=range(job["n"]))
                if not _finite(e["log_p_one"]):
                    probs.append("recorded log_p_one not provably finite")
            if [e["iter"] for e in results["trace"]] != [0] + list(range(job["iters"])):
                probs.append("trace entries missing")
            return probs

        def run():
            for p in CTX.explore(one, before_path=patcher.reset_caches, catch=(Exception,), max_paths=100000):
                res["paths_total"] += 1
                res["obligations"] += 1
                bad = repr(p.exc) if p.exc is not None else (p.result[:2] if p.result else None)
                if bad:
                    r, model = CTX.check(p.pc, want_model=True)
                    res["cex"].append({"kind": "exception" if p.exc is not None else "bad-result", "detail": str(bad),
                                       "values": model_values(model) if model else {}, "trace": [c for _, c, _ in p.trace]})
                    return
                res["discharged"] += 1
        _, funcs = patcher.entered_functions(run)
    finally:
        undo()
    res["sample"] = {"chain": job["name"], "paths": res["paths_total"], "burnin": job["burnin"], "iterations": job["iters"]}
    return funcs


def work(job):
    res = {"obligations": 0, "discharged": 0, "cex": [], "nontrivial": job["n"] > 1 or job.get("outliers"), "paths_total": 0}
    CTX.new_session()
    CTX.sentinel_mode = "assume"
    funcs = _work_step(job, res) if job["kind"] == "step" else _work_chain(job, res)
    res["functions"] = funcs
    res["twin_ok"] = res["paths_total"] > 0
    res["status"] = "cex" if res["cex"] else "ok"
    for c in res["cex"]:
        c.update({"finding_key": f"C19:{job.get('move') or 'chain'}:{c['kind']}",
                  "job": {k: job.get(k) for k in ("kind", "move", "n", "G", "outliers", "kernel", "wiring", "N", "thr", "fixed", "subtree", "burnin", "iters", "conc", "p_one")}})
    res["cex"] = res["cex"][:1]
    return res


def replay(case):
    """Replay the failing path (same RNG decisions) on the unpatched code with the model's data."""
    from phyclone.tree import Tree
    from phyclone.utils.dev import clear_proposal_dist_caches
    job = case["job"]
    vals = dict(c01.ANCHOR)
    vals.update(case.get("values", {}))
    n = job["n"]
    CTX.prefix = [("c", c, None) for c in case.get("trace", [])]
    CTX.trace, CTX.pc, CTX.probs, CTX.pending = [], [], [], []
    try:
        clear_proposal_dist_caches()
        if job["kind"] == "step":
            S = _setup_step(job, vals=vals)
            tree = [t for k, t in S["states"] if str(k) == case["state"]][0]
            t = S["sampler"].sample_tree(tree.copy())
            probs = wellformed.problems(t, expected_idxs=range(n))
            lp = float(S["td"].log_p_one(t))
            bad = bool(probs) or lp != lp or lp in (float("inf"), float("-inf"))
            return bad, {"problems": probs[:2], "log_p_one": lp}
        undo = _install_chain_stubs(sym=False)
        try:
            results = _chain(job, vals=vals)
        finally:
            undo()
        probs = []
        for e in results["trace"]:
            probs += wellformed.problems(Tree.from_dict(e["tree"]), expected_idxs=range(n))
            lp = float(e["log_p_one"])
            if lp != lp or lp in (float("inf"), float("-inf")):
                probs.append("non-finite log_p_one")
        return bool(probs), {"problems": probs[:2]}
    except Exception as e:  # noqa
        return True, {"exception": repr(e)}
    finally:
        CTX.prefix = []


def evidence(tier, seed, results, canaries):
    agg, funcs, obligations, discharged = harness.aggregate(results)
    real = [r for r in results if not r["job"].get("canary")]
    return {
        "level": "other",
        "coverage": {
            "explanation": "Inductive step: from every valid state each sampler move is run over every RNG outcome and every solver-feasible "
                           "data-dependent branch (symbolic data) for the boundary configurations; on every path there is no exception, the result "
                           "is a well-formed forest over all data and z3 / sign analysis proves exp(log_p_one) > 0 (finite). Then the real "
                           "run_phyclone_chain (burn-in, main loop, relabelling, concentration update through recording stand-ins for the scipy "
                           "draws, trace) is explored on one and two data points and every recorded entry is restored and checked.",
            "functions_encoded": funcs, "obligations": obligations, "discharged": discharged,
            "bounds": {"steps": "n = 1, 2 (thorough 3), every forest and outlier subset as start state; particles 1 and 2; threshold 0 and 1; outlier probability 0 and 0.2 (symbolic priors); three proposals; run-command wiring",
                       "chains": "n = 1 (all proposals, N in {1,2}, threshold {0,1}, 2 iterations) and n = 2 (N = 2, threshold 1/2, 1 iteration), burn-in 1, subtree probability {0,1}, concentration update on"},
            "outside_bounds": ["whole-chain products beyond 2 iterations", "multi-process chains, cli option parsing", "several samples", "floating-point under/overflow"],
            "evaluations": sum(r.get("paths_total", 0) for r in real), "distinct_nontrivial": sum(1 for r in real if r.get("nontrivial")),
            "rule": "evaluations = sampler / chain paths executed; distinct cases = (move or chain, proposal, n, outliers, particles, threshold) configurations; non-trivial = more than one data point or outliers on",
            "samples": [r["sample"] for r in real if r.get("sample")][:8],
            "paths": agg["paths"], "queries": agg["queries"], "solver_s": agg["solver_s"], "forks": agg["forks"],
            "verdicts": {k: agg[k] for k in ("sat", "unsat", "unknown")}, "canaries": canaries,
            "stubs": patcher.STUBS + ["scipy.stats rvs -> recorders (C13)", "print -> no-op"],
        },
        "assumptions": ["a valid state is any forest over the data with any outlier subset (outliers only when outlier modelling is on)",
                        "positive real data (no IEEE underflow)", "zero-sentinel paths cut by assumption (C03)"],
    }
