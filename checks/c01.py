"""C01 - one particle-Gibbs update of the whole tree leaves the posterior gamma(t) = exp(log_p_one(t)) invariant.

Executed symbolically: ParticleGibbsTreeSampler.sample_tree/sample_swarm/_sample_tree_from_swarm,
RootPermutationDistribution.sample/log_pdf, ConditionalSMCSampler (all methods), Kernel.create_particle/
propose_particle, the three proposal classes, TreeHolder, Particle, ParticleSwarm, _get_log_w, discrete_rvs,
and - for the run wiring - run.setup_kernel and run.setup_samplers are called to obtain the sampler.
Symbolic: every likelihood grid value, alpha, per-point outlier prior.  Every random draw is a choice point
with its exact probability; the ESS test is a data-dependent fork decided by z3.
"""
import math
from fractions import Fraction

from vsym import harness, patcher, mutate, markov
from vsym.build import sym_dp, float_dp, model_values
from vsym.ctx import CTX, Inconclusive
from vsym.forkrng import ForkRNG
from vsym.scalars import Log, Lin
from vsym.shapes import all_forests, tree_key
from vsym.vq import V

META = {"property_id": "C01", "level": "other"}
PROPOSALS = {"bootstrap": "bootstrap", "semi": "semi-adapted", "fully": "fully-adapted"}

CANARIES = {
    "weight_omits_log_q": ("phyclone.smc.kernels.base", "Kernel.create_particle",
                           "log_w = particle.log_p - parent_particle.log_p + particle.log_pdf - parent_particle.log_pdf - log_q",
                           "log_w = particle.log_p - parent_particle.log_p + particle.log_pdf - parent_particle.log_pdf"),
    "last_step_correction_dropped": ("phyclone.smc.samplers.base", "AbstractSMCSampler._get_log_w",
                                     "return particle.log_w - particle.log_p + particle.log_p_one", "return particle.log_w"),
    "retained_weight_from_wrong_slot": ("phyclone.smc.samplers.conditional", "ConditionalSMCSampler._update_swarm",
                                        "parent_log_W = self.swarm.log_weights[0]", "parent_log_W = self.swarm.log_weights[-1]"),
    "final_selection_uniform": ("phyclone.mcmc.particle_gibbs", "ParticleGibbsTreeSampler._sample_tree_from_swarm",
                                "particle_idx = discrete_rvs(swarm.weights, self._rng)",
                                "particle_idx = discrete_rvs(swarm.weights * 0 + 1, self._rng)"),
    "run_wiring_without_perm_dist": ("phyclone.run", "setup_kernel", "perm_dist=RootPermutationDistribution(),", ""),
}


ANCHOR = {"alpha": "7/10", "po0": "1/5", "pn0": "4/5", "po1": "1/3", "pn1": "2/3", "po2": "1/4", "pn2": "3/4",
          "x0_0_0": "3/10", "x0_0_1": "2", "x1_0_0": "3/2", "x1_0_1": "1/5", "x2_0_0": "1/2", "x2_0_1": "5/4",
          "x0_0_2": "7/5", "x1_0_2": "2/3", "x2_0_2": "9/10",
          "x0_1_0": "6/5", "x0_1_1": "1/3", "x1_1_0": "1/4", "x1_1_1": "5/3", "x2_1_0": "3/4", "x2_1_1": "2"}


ANCHOR2 = {"alpha": "9/4", "po0": "1/20", "pn0": "19/20", "po1": "2/5", "pn1": "3/5", "x0_0_0": "5/2", "x0_0_1": "1/7", "x1_0_0": "2/9", "x1_0_1": "4"}


def slice_fixed(symbolic_prefixes, n, G, outl, D=1):
    """Everything except the variables whose name starts with one of `symbolic_prefixes` is held at ANCHOR."""
    names = ["alpha"] + [f"x{i}_{d}_{g}" for i in range(n) for d in range(D) for g in range(G)]
    if outl:
        names += [f"po{i}" for i in range(n)] + [f"pn{i}" for i in range(n)]
    return {nm: ANCHOR[nm] for nm in names if not any(nm.startswith(p) for p in symbolic_prefixes)}


# coordinate slices used where the fully symbolic identity is beyond z3 (probed: unknown after 300 s with 8-9 unknowns)
SLICES2 = {"data": ("x",), "params": ("alpha", "po", "pn"), "point0+priors": ("x0", "po", "pn")}
SLICES3 = {"point0+alpha": ("x0", "alpha"), "point1": ("x1",), "point2+alpha": ("x2", "alpha")}


def apply_canary(name):
    return mutate.mutate(*CANARIES[name])


def jobs(tier, seed):
    out = []

    def add(kern, wiring, outl, thr, N, n, G=2, cost=1, **kw):
        j = {"name": f"{kern}-{wiring}-out{int(outl)}-thr{thr}-N{N}-n{n}-G{G}", "kernel": kern, "wiring": wiring, "outliers": outl,
             "thr": thr, "N": N, "n": n, "G": G, "cost": cost}
        j.update(kw)
        out.append(j)
    for kern in PROPOSALS:
        for wiring in ("library", "run"):
            for thr in ("0", "3/4", "1"):
                add(kern, wiring, False, thr, 2, 2, cost=2)
                for sname, pref in SLICES2.items():
                    add(kern, wiring, True, thr, 2, 2, cost=10, fixed=slice_fixed(pref, 2, 2, True), slice=sname)
                    out[-1]["name"] += f"-slice:{sname}"
            add(kern, wiring, True, "0", 2, 1, cost=1)
            add(kern, wiring, True, "1", 2, 1, cost=1)
    # two samples: the first sample's data and alpha symbolic, the second sample at the anchor
    for kern in (("semi",) if tier == "quick" else tuple(PROPOSALS)):
        for wiring in ("library", "run"):
            add(kern, wiring, False, "1", 2, 2, cost=8, D=2, fixed={k: v for k, v in slice_fixed(("alpha", "x0_0", "x1_0"), 2, 2, False, D=2).items()}, slice="sample0+alpha")
            out[-1]["name"] += "-D2-slice:sample0+alpha"
    # n = 3 whole-tree updates cost tens of minutes per configuration in this engine (thousands of paths per start state and
    # row terms too large for z3 even on slices: probed, one job > 50 min) and are outside both tiers; the thorough tier adds
    # three particles, a finer grid, the threshold 1/2 and a second anchor for the outlier slices at n = 2
    if tier == "thorough":
        for kern in PROPOSALS:
            for wiring in ("library", "run"):
                add(kern, wiring, False, "1/2", 3, 2, cost=200)
                add(kern, wiring, False, "1", 3, 2, cost=300)
                add(kern, wiring, False, "1/2", 2, 2, G=3, cost=50)
                add(kern, wiring, False, "1", 2, 2, G=3, cost=80)
                for sname, pref in SLICES2.items():
                    fx = slice_fixed(pref, 2, 2, True)
                    fx = {k: ANCHOR2.get(k, v) for k, v in fx.items()}
                    add(kern, wiring, True, "1/2", 2, 2, cost=10, fixed=fx, slice=sname + "@anchor2")
                    out[-1]["name"] += f"-slice:{sname}@anchor2"
                # (three particles with outliers on were probed on the parameter slice: > 50 min per job - not included)
    for cname, kern, wiring, thr, outl in (("weight_omits_log_q", "fully", "library", "0", False), ("last_step_correction_dropped", "bootstrap", "library", "0", False),
                                           ("retained_weight_from_wrong_slot", "bootstrap", "library", "0", True), ("final_selection_uniform", "fully", "run", "0", False),
                                           ("run_wiring_without_perm_dist", "semi", "run", "0", False)):
        add(kern, wiring, outl, thr, 2, 2, cost=5, canary=cname, fixed=(slice_fixed(SLICES2["params"], 2, 2, True) if outl else {}))
        out[-1]["name"] = f"canary-{cname}"
    return out


def setup(job, vals=None):
    """Symbolic (vals None) or float twin of one configuration."""
    from phyclone.tree import FSCRPDistribution, TreeJointDistribution
    from phyclone.mcmc.particle_gibbs import ParticleGibbsTreeSampler
    from phyclone.smc.kernels import BootstrapKernel, FullyAdaptedKernel, SemiAdaptedKernel
    from phyclone.smc.utils import RootPermutationDistribution
    import phyclone.run as prun
    n, G, N, outl = job["n"], job["G"], job["N"], job["outliers"]
    D = job.get("D") or 1
    job = dict(job)
    job["fixed"] = job.get("fixed") or {}
    sym = vals is None
    thr = Fraction(job["thr"])
    dps = []
    if sym:
        fixed = job.get("fixed") or {}
        alpha = Lin(V(Fraction(fixed["alpha"]))) if "alpha" in fixed else Lin(V.var("alpha"))
        for i in range(n):
            dp = sym_dp(i, D, G, fixed=fixed)
            if outl and job.get("p_one"):
                # boundary of the accepted range: outlier probability exactly 1 -> log p = 0 (the code's "off" sentinel), log(1-p) = -inf
                dp.outlier_prob, dp.outlier_prob_not = Log(V(1)), Log(V(0))
            elif outl and f"po{i}" in fixed:
                dp.outlier_prob, dp.outlier_prob_not = Log(V(Fraction(fixed[f"po{i}"]))), Log(V(Fraction(fixed[f"pn{i}"])))
            elif outl:
                # the two outlier-prior factors are independent positive unknowns: invariance must not (and does not)
                # depend on their summing to one, and the solver sees no term of unknown sign
                po = V.var(f"po{i}")
                CTX.assume(po.lt(V(1)))      # log(po) != 0: the code's `outlier_prob != 0` sentinel means "outlier modelling on"
                dp.outlier_prob, dp.outlier_prob_not = Log(po), Log(V.var(f"pn{i}"))
            dps.append(dp)
    else:
        alpha = float(Fraction(vals.get("alpha", 1)))
        thr = float(thr)
        for i in range(n):
            dp = float_dp(i, D, G, vals)
            if outl and job.get("p_one"):
                dp.outlier_prob, dp.outlier_prob_not = 0.0, -math.inf
            elif outl:
                dp.outlier_prob = math.log(float(Fraction(vals.get(f"po{i}", "1/5"))))
                dp.outlier_prob_not = math.log(float(Fraction(vals.get(f"pn{i}", "4/5"))))
            dps.append(dp)
    td = TreeJointDistribution(FSCRPDistribution(alpha))
    rng = ForkRNG()
    if job["wiring"] == "run":
        kernel = prun.setup_kernel(0.2 if outl else 0, PROPOSALS[job["kernel"]], rng, td)
        sampler = prun.setup_samplers(kernel, N, 0.2 if outl else 0, thr, rng, td).tree_sampler
    else:
        cls = {"bootstrap": BootstrapKernel, "semi": SemiAdaptedKernel, "fully": FullyAdaptedKernel}[job["kernel"]]
        kernel = cls(td, rng, outlier_proposal_prob=(0.1 if outl else 0), perm_dist=RootPermutationDistribution())
        sampler = ParticleGibbsTreeSampler(kernel, rng, num_particles=N, resample_threshold=thr)
    forests = all_forests(n, outliers=outl)
    states = [(f.key(), f.to_tree(dps, (D, G))) for f in forests]
    return dict(dps=dps, td=td, sampler=sampler, states=states, forests=forests)


def work(job):
    res = {"obligations": 0, "discharged": 0, "cex": [], "nontrivial": True}
    CTX.new_session()
    CTX.sentinel_mode = "assume"
    S = {}

    def run():
        S.update(setup(job))
        S["gam"] = {k: S["td"].log_p_one(t).e for k, t in S["states"]}
        rows, info = markov.explore_rows(S["states"], S["sampler"].sample_tree, before_path=patcher.reset_caches)
        return rows, info
    (rows, info), funcs = patcher.entered_functions(run)
    res["functions"] = funcs
    res["paths"] = info["paths"]
    fk = f"C01:{job['wiring']}:{job['kernel']}:outliers={int(job['outliers'])}"

    def cex(kind, model=None, **kw):
        c = {"kind": kind, "finding_key": fk, "job": {k: job.get(k) for k in ("kernel", "wiring", "outliers", "thr", "N", "n", "G", "fixed", "D", "p_one")}}
        c["values"] = model_values(model) if model is not None else {}
        c.update(kw)
        res["cex"].append(c)
    # every path ends in a state of the independently enumerated space
    res["obligations"] += 1
    if info["unknown_targets"] or info["exceptions"]:
        cex("escapes-state-space", detail=str((info["unknown_targets"][:2], info["exceptions"][:2])))
    else:
        res["discharged"] += 1
    # per cell of the data space (sign vector of the data-dependent decisions): rows are probability
    # distributions and gamma is invariant
    cell_list = markov.cells(rows) if not res["cex"] else []
    res["cells"] = len(cell_list)
    for lits, K in cell_list:
        for t, row in K.items():
            res["obligations"] += 1
            s = V(0)
            for v in row.values():
                s = s + v
            r, model = CTX.prove(s.eq(V(1)), extra=lits, use_pc=False)
            if r == "unsat":
                res["discharged"] += 1
            elif r == "sat":
                cex("row-not-stochastic", model)
                break
            else:
                raise Inconclusive("row sum query unknown")
        if res["cex"]:
            break
        res["obligations"] += len(S["states"])
        r, model = markov.invariance_on_cell(S["gam"], K, lits, timeout_ms=int(job.get("inv_timeout", 120)) * 1000)
        if r == "unsat":
            res["discharged"] += len(S["states"])
        elif r == "sat":
            cex("not-invariant", model)
            break
        else:
            raise Inconclusive("invariance query unknown")
    r, _ = CTX.check([S["gam"][S["states"][0][0]].gt(0)])
    res["twin_ok"] = (r == "sat")
    res["status"] = "cex" if res["cex"] else "ok"
    res["regions"] = res["cells"]
    res["sample"] = {"config": job["name"], "states": len(S["states"]), "paths": info["paths"],
                     "cells": res["cells"]}
    return res


def replay(case):
    """Exact float transition matrix on the unpatched code; confirmed if max|pi K - pi| > 1e-9 (or a row is not stochastic)."""
    from phyclone.utils.dev import clear_proposal_dist_caches
    job = case["job"]
    vals = dict(job.get("fixed") or {})
    vals.update(case.get("values", {}))
    S = setup(job, vals=vals)
    gam = {k: math.exp(S["td"].log_p_one(t)) for k, t in S["states"]}
    rows, info = markov.explore_rows(S["states"], S["sampler"].sample_tree, before_path=clear_proposal_dist_caches)
    if info["unknown_targets"] or info["exceptions"]:
        return True, {"escapes": str(info)[:300]}
    resid, rs = markov.float_residual(gam, rows)
    return (resid > 1e-9 or rs > 1e-9), {"max_abs_piK_minus_pi": resid, "max_rowsum_dev": rs}


def evidence(tier, seed, results, canaries):
    agg, funcs, obligations, discharged = harness.aggregate(results)
    real = [r for r in results if not r["job"].get("canary")]
    return {
        "level": "other",
        "coverage": {
            "explanation": "For each configuration the real particle-Gibbs code is run from every tree of the independently enumerated "
                           "state space under an enumerating RNG: each path yields the resulting tree and the exact (symbolic) probability "
                           "of its draws, giving the exact transition rows K(t,.). z3 decides row sums == 1 and the invariance identity "
                           "sum_t gamma(t)K(t,t') == gamma(t') for all positive data, alpha and outlier priors; data-dependent ESS branches "
                           "become region selectors that the solver splits on.",
            "functions_encoded": funcs,
            "bounds": {"quick": "n=2 data points, N=2 particles, grid 2, thresholds {0, 3/4, 1}, all three proposals x {library, run} wiring x outliers {off, on}; plus n=3 for two configurations",
                       "thorough": "adds N=3 particles and grid 3 at n=2 (thresholds 1/2 and 1) and a second anchor for the outlier slices",
                       "samples": 1},
            "outside_bounds": ["n >= 3 (whole-tree update: beyond the engine's reach, see DESIGN 1.6), N > 3, several samples", "floating point"],
            "obligations": obligations, "discharged": discharged,
            "evaluations": agg["paths"], "distinct_nontrivial": len({r["job"]["name"] for r in real}),
            "rule": "evaluations = sampler paths executed; distinct cases = configurations (proposal, wiring, outliers, threshold, N, n, G), all non-trivial",
            "samples": [r["sample"] for r in real if "sample" in r][:8],
            "paths": agg["paths"], "queries": agg["queries"], "solver_s": agg["solver_s"],
            "verdicts": {k: agg[k] for k in ("sat", "unsat", "unknown")},
            "canaries": canaries, "reachability_twins": sum(1 for r in real if r.get("twin_ok")),
            "stubs": patcher.STUBS,
        },
        "assumptions": ["gamma(t) is taken from the real TreeJointDistribution.log_p_one (its correctness is C03's subject)",
                        "positive real data, alpha > 0, outlier priors in (0,1); real arithmetic",
                        "paths on which a symbolic log-density is exactly 0.0 (`if not log_p` sentinel) are cut by assumption (C03 explores both sides)",
                        "validity of particle Gibbs as an algorithm is not re-proved; the code's exact transition law is checked within the bounds"],
    }
