"""C09 - data orders are drawn uniformly from those compatible with the tree; log_pdf = -log(#orders).

Executed: RootPermutationDistribution.sample/log_count/log_pdf, interleave_lists, log_multinomial_coefficient,
log_binomial_coefficient, log_factorial (lgamma stub exact at integers) with the enumerating RNG as the only
source of randomness.  There is no numeric input: path probabilities are exact rationals and every query is
ground; the quantifier over trees is the bounded enumeration (exploration level).
"""
import math
from fractions import Fraction

from vsym import harness, patcher, mutate
from vsym.build import sym_dp, float_dp
from vsym.ctx import CTX
from vsym.forkrng import ForkRNG
from vsym.scalars import Log
from vsym.shapes import Forest, all_forests
from vsym.vq import V

META = {"property_id": "C09", "level": "exploration"}

CANARIES = {
    "count_forgets_within_clone_orders": ("phyclone.smc.utils", "RootPermutationDistribution.log_count",
                                          "count += log_factorial(tree.get_data_len(source))", "count += 0"),
    "interleave_pops_from_the_end": ("phyclone.smc.utils", "interleave_lists", "lists[idx].pop(0)", "lists[idx].pop()"),
    "outlier_orders_not_counted": ("phyclone.smc.utils", "RootPermutationDistribution.log_count",
                                   "count += log_factorial(num_outlier_data_points)", "count += 0"),
}


def apply_canary(name):
    return mutate.mutate(*CANARIES[name])


def jobs(tier, seed):
    out = []
    nmax = 4 if tier == "quick" else 5
    for n in range(1, nmax + 1):
        fs = all_forests(n, outliers=True)
        if n == 5:
            fs = [f for f in fs if len(f.outliers) <= 2]
        chunk = 40
        for i in range(0, len(fs), chunk):
            out.append({"name": f"n{n}-forests{i}-{min(i + chunk, len(fs))}", "n": n, "lo": i, "hi": min(i + chunk, len(fs)), "cost": n ** 3})
    for cname in CANARIES:
        out.append({"name": f"canary-{cname}", "canary": cname, "n": 4, "lo": 0, "hi": 10 ** 6, "cost": 50})
    return out


def _forests(job):
    fs = all_forests(job["n"], outliers=True)
    if job["n"] == 5:
        fs = [f for f in fs if len(f.outliers) <= 2]
    return fs[job["lo"]:job["hi"]]


def _check_forest(f, dps, float_mode):
    """returns (ok, detail) comparing sampler outcomes and reported density with brute force"""
    from phyclone.smc.utils import RootPermutationDistribution as RPD
    tree = f.to_tree(dps, (1, 2))
    rng = ForkRNG()
    paths = CTX.explore(lambda: tuple(dp.idx for dp in RPD.sample(tree, rng)))
    exts = set(f.linear_extensions())
    dist = {}
    for p in paths:
        pr = p.prob if float_mode else p.prob.c
        dist[p.result] = dist.get(p.result, 0) + pr
    if set(dist) != exts:
        return False, {"kind": "support", "missing": len(exts - set(dist)), "extra": len(set(dist) - exts)}
    want = 1.0 / len(exts) if float_mode else Fraction(1, len(exts))
    for o, pr in dist.items():
        if (abs(pr - want) > 1e-12) if float_mode else (pr != want):
            return False, {"kind": "not-uniform", "order": list(o), "prob": str(pr), "want": str(want)}
    lp = RPD.log_pdf(tree)
    if float_mode:
        if abs(math.exp(-float(lp)) - len(exts)) > 1e-9 * len(exts):
            return False, {"kind": "log_pdf", "reported_count": math.exp(-float(lp)), "count": len(exts)}
    else:
        e = lp.e if isinstance(lp, Log) else V(1) if lp == 0 else None
        if e is None or not e.is_const() or e.c != Fraction(1, len(exts)):
            return False, {"kind": "log_pdf", "reported": str(e), "count": len(exts)}
    return True, {"orders": len(exts), "paths": len(paths)}


def work(job):
    res = {"obligations": 0, "discharged": 0, "cex": [], "nontrivial": True, "cases": 0, "nontrivial_cases": 0}
    CTX.new_session()
    n = job["n"]
    sample = None

    def run():
        nonlocal sample
        dps = [sym_dp(i, 1, 2) for i in range(n)]
        for f in _forests(job):
            res["obligations"] += 3
            res["cases"] += 1
            if len(f.blocks) > 1 or f.outliers or any(len(b) > 1 for b in f.blocks):
                res["nontrivial_cases"] += 1
            ok, det = _check_forest(f, dps, False)
            if ok:
                res["discharged"] += 3
                if sample is None or det["orders"] > sample["orders"]:
                    sample = {"forest": f.describe(), **det}
            else:
                res["cex"].append({"finding_key": "C09:" + det["kind"], "blocks": f.blocks, "parent": f.parent, "outliers": f.outliers,
                                   "n": n, "detail": det, "kind": det["kind"]})
                if len(res["cex"]) > 3:
                    break
    _, funcs = patcher.entered_functions(run)
    res["functions"] = funcs
    res["twin_ok"] = res["cases"] > 0
    res["status"] = "cex" if res["cex"] else "ok"
    res["sample"] = sample
    return res


def replay(case):
    f = Forest([tuple(b) for b in case["blocks"]], case["parent"], case["outliers"], n=case["n"])
    dps = [float_dp(i, 1, 2, {}) for i in range(case["n"])]
    ok, det = _check_forest(f, dps, True)
    return (not ok), det


def evidence(tier, seed, results, canaries):
    agg, funcs, obligations, discharged = harness.aggregate(results)
    real = [r for r in results if not r["job"].get("canary")]
    return {
        "level": "exploration",
        "coverage": {
            "evaluations": sum(r.get("cases", 0) for r in real),
            "distinct_nontrivial": sum(r.get("nontrivial_cases", 0) for r in real),
            "rule": "every forest over n data points (set partitions x rooted forests x outlier subsets), n <= 4 quick / 5 thorough "
                    "(n=5: at most 2 outliers); for each, every outcome of every shuffle is enumerated with its exact rational "
                    "probability; non-trivial = anything but a single one-point clone without outliers",
            "samples": [r["sample"] for r in real if r.get("sample")][:6],
            "exhaustive": True,
            "explanation": "No numeric input exists for this property, so the solver-based engine degenerates to exhaustive bounded "
                           "exploration with exact arithmetic: set of produced orders == brute-force linear extensions, each with "
                           "probability exactly 1/#orders, exp(-log_pdf) == #orders exactly.",
            "functions_encoded": funcs, "obligations": obligations, "discharged": discharged,
            "paths": agg["paths"], "queries": agg["queries"], "solver_s": agg["solver_s"],
            "canaries": canaries, "stubs": patcher.STUBS,
        },
        "assumptions": ["lgamma at integer arguments is exact (stub); trees with more than 5 data points are outside the bound"],
    }
