"""C07 - every tree is a well-formed forest and no move loses or duplicates data.

No numeric input: a ground structural invariant (vsym/wellformed.py) asserted (a) on every tree reachable after
every edit history of the C06 grammar, one edit deeper than C06 explores, and (b) on the tree returned along every
path of every sampler (burn-in SMC, particle Gibbs, subtree PG, data-point, prune-regraft) run from every start
tree under the enumerating RNG with symbolic data, so that z3 decides which data-dependent (ESS) branches exist.
"""
from fractions import Fraction

from vsym import harness, patcher, mutate, wellformed
from vsym.ctx import CTX
from vsym.shapes import all_forests
from checks import c06, c04, c01

META = {"property_id": "C07", "level": "exploration"}

CANARIES = {
    "relabel_forgets_index_map": ("phyclone.tree.visitors", "PreOrderNodeRelabeller.discover_vertex",
                                  "self.node_indices_rev[v] = node_id", "pass"),
    "graft_keeps_clashing_name": ("phyclone.tree.tree", "Tree._relabel_grafted_subtree_nodes",
                                  "node_obj.node_id = node_name", "pass"),
}


def apply_canary(name):
    return mutate.mutate(*CANARIES[name])


def jobs(tier, seed):
    out = []
    for j in c06.jobs(tier, seed, prop="C07"):
        j = dict(j)
        j["kind"] = "history"
        if j["n"] <= 2 and tier == "quick":
            j["L"] += 1          # structural checks are cheap: one edit deeper than C06's quick tier (thorough: C06's thorough histories)
            j["cost"] *= 6
        j["prop"] = "C07"
        j["name"] = "hist-" + j["name"]
        out.append(j)
    ns = (1, 2) if tier == "quick" else (1, 2, 3)
    for n in ns:
        for outl in (False, True):
            for move in ("dp", "prg"):
                out.append({"name": f"sampler-{move}-n{n}-out{int(outl)}", "kind": "sampler", "move": move, "n": n, "G": 2, "outliers": outl,
                            "kernel": None, "wiring": None, "N": 2, "thr": "1/2", "fixed": {}, "cost": 10 * n})
            for kern in c01.PROPOSALS:
                for move in ("pg", "subtree", "burnin"):
                    for thr in ("3/4",) if n < 3 else ("1/2",):
                        # burn-in SMC with two particles, three points and outliers runs > 25 min per job: one particle there
                        N = 1 if (n == 3 and move == "burnin" and outl) else 2
                        out.append({"name": f"sampler-{move}-{kern}-n{n}-out{int(outl)}-N{N}-thr{thr}", "kind": "sampler", "move": move, "n": n, "G": 2,
                                    "outliers": outl, "kernel": kern, "wiring": "run", "N": N, "thr": thr, "fixed": {}, "cost": 30 * n ** 3})
    for move in ("dp", "prg"):
        out.append({"name": f"sampler-{move}-n3-out1", "kind": "sampler", "move": move, "n": 3, "G": 2, "outliers": True,
                    "kernel": None, "wiring": None, "N": 2, "thr": "1/2", "fixed": {}, "cost": 60})
    chain = {"blocks": ((0,), (1,), (2,)), "parent": (None, 0, 1), "outliers": ()}
    for cname in CANARIES:
        out.append({"name": f"canary-{cname}", "canary": cname, "kind": "history", "n": 3, "L": 2, "total": 4, "G": 2, "prop": "C07", "cost": 50, **chain})
    return out


def _sampler(job):
    import phyclone.run as prun
    from phyclone.smc.samplers import UnconditionalSMCSampler
    if job["move"] in ("dp", "prg", "subtree"):
        return c04.setup(job)
    S = c01.setup(job)
    if job["move"] == "burnin":
        S["sampler"] = UnconditionalSMCSampler(S["sampler"].kernel, num_particles=job["N"], resample_threshold=Fraction(job["thr"]))
    return S


def work(job):
    if job["kind"] == "history":
        r = c06.work(job, structural_only=True)
        return r
    res = {"obligations": 0, "discharged": 0, "cex": [], "nontrivial": True, "histories": 0, "nontrivial_histories": 0}
    CTX.new_session()
    CTX.sentinel_mode = "assume"
    n = job["n"]

    def run():
        S = _sampler(job)
        for key, tree in S["states"]:
            def one(tree=tree):
                t = S["sampler"].sample_tree(tree.copy())
                return wellformed.problems(t, expected_idxs=range(n))
            for p in CTX.explore(one, before_path=patcher.reset_caches, catch=(Exception,)):
                res["histories"] += 1
                res["obligations"] += 1
                if p.exc is not None:
                    res["cex"].append({"kind": "exception", "detail": repr(p.exc), "trace": [c for _, c, _ in p.trace], "state": str(key)})
                elif p.result:
                    res["cex"].append({"kind": "malformed", "detail": p.result[:3], "trace": [c for _, c, _ in p.trace], "state": str(key)})
                else:
                    res["discharged"] += 1
                if len(res["cex"]) > 2:
                    return len(S["states"])
        return len(S["states"])
    nstates, funcs = patcher.entered_functions(run)
    res["nontrivial_histories"] = res["histories"] if n > 1 else 0
    res["functions"] = funcs
    res["twin_ok"] = res["histories"] > 0
    res["status"] = "cex" if res["cex"] else "ok"
    for c in res["cex"]:
        c.update({"job": {k: job.get(k) for k in ("kind", "move", "n", "G", "outliers", "kernel", "wiring", "N", "thr", "fixed")},
                  "finding_key": f"C07:{job['move']}:{c['kind']}"})
    res["cex"] = res["cex"][:2]
    res["sample"] = {"sampler": job["name"], "start_states": nstates, "paths": res["histories"], "forks_decided_by_solver": CTX.stats["forks"]}
    return res


def replay(case):
    job = case["job"]
    if job.get("kind") != "sampler":
        return c06.replay(case, structural_only=True)
    # sampler paths: re-run the exploration in float mode at the anchor values and look for any malformed result / exception
    from phyclone.utils.dev import clear_proposal_dist_caches
    if job["move"] in ("dp", "prg", "subtree"):
        S = c04.setup(job, vals=dict(c01.ANCHOR))
    else:
        S = c01.setup(job, vals=dict(c01.ANCHOR))
        if job["move"] == "burnin":
            from phyclone.smc.samplers import UnconditionalSMCSampler
            S["sampler"] = UnconditionalSMCSampler(S["sampler"].kernel, num_particles=job["N"], resample_threshold=float(Fraction(job["thr"])))
    n = job["n"]
    for key, tree in S["states"]:
        def one(tree=tree):
            return wellformed.problems(S["sampler"].sample_tree(tree.copy()), expected_idxs=range(n))
        for p in CTX.explore(one, before_path=clear_proposal_dist_caches, catch=(Exception,)):
            if p.exc is not None:
                return True, {"exception": repr(p.exc), "state": str(key)}
            if p.result:
                return True, {"malformed": p.result[:3], "state": str(key)}
    return False, "no malformed tree on any path at the anchor data"


def evidence(tier, seed, results, canaries):
    agg, funcs, obligations, discharged = harness.aggregate(results)
    real = [r for r in results if not r["job"].get("canary")]
    return {
        "level": "exploration",
        "coverage": {
            "evaluations": sum(r.get("histories", 0) for r in real),
            "distinct_nontrivial": sum(r.get("nontrivial_histories", 0) for r in real),
            "rule": "evaluations = edit histories (C06 grammar, one edit deeper for start forests on <= 2 points) + sampler paths (every RNG "
                    "outcome and every solver-feasible ESS branch from every start tree); non-trivial = history of >= 2 edits, or a sampler "
                    "path on >= 2 data points. The invariant itself has no numeric input, so all assertions are ground.",
            "samples": [r["sample"] for r in real if r.get("sample")][:8],
            "exhaustive": True,
            "explanation": "Ground structural invariant (parent uniqueness, reachability, name<->index bijection, _data <-> payload agreement, "
                           "partition of the data set) asserted on every live tree of every history and on every sampler path's result; z3's "
                           "part is deciding which data-dependent paths exist.",
            "functions_encoded": funcs, "obligations": obligations, "discharged": discharged,
            "paths": agg["paths"], "queries": agg["queries"], "solver_s": agg["solver_s"], "forks": agg["forks"],
            "canaries": canaries, "stubs": patcher.STUBS,
            "bounds": {"samplers": "burn-in SMC, particle Gibbs, subtree PG (three proposals, run wiring, N=2, threshold 3/4), data-point and prune-regraft moves; n <= 2 quick (n=3 for the two Gibbs moves), n <= 3 thorough; outliers off/on",
                       "histories": "quick: as C06 with one more edit for start forests on <= 2 points; thorough: C06's thorough histories"},
        },
        "assumptions": ["the invariant in vsym/wellformed.py is the property's statement against Tree's observable state"],
    }
