"""C06 - incrementally maintained likelihoods equal a from-scratch rebuild (and, on the same paths, C07's
structural invariant).

Executed symbolically: every public edit of Tree/TreeNode (add_data_point_to_node/outliers, create_root_node,
remove_data_point_from_node/outliers, get_subtree, remove_subtree, add_subtree, _relabel_grafted_subtree_nodes,
relabel_nodes, copy, to_dict/from_dict, update, _update_path_to_root), PreOrderNodeRelabeller.
Edit histories are choice points over the grammar in vsym/edits.py; grid values and alpha are solver variables.
"""
import math
from fractions import Fraction

from vsym import harness, patcher, mutate, edits, wellformed
from vsym.build import sym_dp, float_dp, model_values
from vsym.ctx import CTX, Inconclusive
from vsym.scalars import Log, Lin
from vsym.shapes import Forest, all_forests
from vsym.vq import V

META = {"property_id": "C06", "level": "other"}

CANARIES = {
    "remove_dp_skips_path_update": ("phyclone.tree.tree", "Tree.remove_data_point_from_node",
                                    "self._update_path_to_root(node)", "pass"),
    "copy_shares_node_payloads": ("phyclone.tree.tree", "Tree.copy",
                                  "new._graph[node_idx] = new._graph[node_idx].copy()", "pass"),
    "remove_dp_first_sample_only": ("phyclone.tree.tree_node", "TreeNode.remove_data_point", "self.log_p -= data_point.value",
                                    "self.log_p[0] -= data_point.value[0]"),
    "remove_dp_forgets_log_r": ("phyclone.tree.tree_node", "TreeNode.add_data_point", "self.log_r += data_point.value", "pass"),
}


def apply_canary(name):
    return mutate.mutate(*CANARIES[name])


def _fj(job):
    return Forest([tuple(b) for b in job["blocks"]], [None if p is None else int(p) for p in job["parent"]], job["outliers"])


def jobs(tier, seed, prop="C06"):
    out = []
    plan = [(1, 3, 3), (2, 3, 3), (3, 2, 4)] if tier == "quick" else [(1, 4, 4), (2, 3, 4), (3, 3, 4), (4, 2, 5)]
    for n, L, total in plan:
        for f in all_forests(n, outliers=True):
            if n >= 3 and len(f.outliers) > 1:
                continue
            out.append({"name": f"n{n}-L{L}-{f.describe()}", "blocks": f.blocks, "parent": f.parent, "outliers": f.outliers, "n": n, "L": L,
                        "total": total, "G": 2, "cost": (len(f.blocks) + 2) ** L})
    if tier == "quick":
        # four data points in three clones (one two-point clone), two edits: the smallest trees on which a graft of a two-level
        # subtree can be followed by a data-point move at depth
        for f in all_forests(4, outliers=False):
            if len(f.blocks) == 3:
                out.append({"name": f"n4-L2-{f.describe()}", "blocks": f.blocks, "parent": f.parent, "outliers": f.outliers, "n": 4, "L": 2,
                            "total": 4, "G": 2, "cost": 30})
    if prop == "C06":
        # two samples (a 2 x G grid per data point): the per-sample rows of every cached vector are maintained independently
        for f in all_forests(2, outliers=True):
            out.append({"name": f"D2-n2-L2-{f.describe()}", "blocks": f.blocks, "parent": f.parent, "outliers": f.outliers, "n": 2, "L": 2,
                        "total": 3, "G": 2, "D": 2, "cost": 40})
        if tier != "quick":
            for f in all_forests(3, outliers=False):
                out.append({"name": f"D2-n3-L2-{f.describe()}", "blocks": f.blocks, "parent": f.parent, "outliers": f.outliers, "n": 3, "L": 2,
                            "total": 4, "G": 2, "D": 2, "cost": 80})
        chain = Forest([[0], [1], [2]], [None, 0, 1], [])
        cherry = Forest([[0, 1], [2]], [None, 0], [])
        for cname, f in (("remove_dp_skips_path_update", cherry), ("copy_shares_node_payloads", cherry), ("remove_dp_forgets_log_r", cherry)):
            out.append({"name": f"canary-{cname}", "canary": cname, "blocks": f.blocks, "parent": f.parent, "outliers": [], "n": 3, "L": 2,
                        "total": 4, "G": 2, "cost": 50})
        # invisible with one sample, so it runs on a two-sample job
        out.append({"name": "canary-remove_dp_first_sample_only", "canary": "remove_dp_first_sample_only", "blocks": cherry.blocks,
                    "parent": cherry.parent, "outliers": [], "n": 3, "L": 2, "total": 4, "G": 2, "D": 2, "cost": 80})
    return out


def _arrays(tree):
    """data-set of clone -> (log_p, log_r); key None = virtual root"""
    out = {None: (tree._graph[tree._node_indices[tree.root_node_name]].log_p, tree.data_log_likelihood)}
    for nm in tree.nodes:
        node = tree._graph[tree._node_indices[nm]]
        out[frozenset(dp.idx for dp in tree.get_data(nm))] = (node.log_p, node.log_r)
    return out


def compare(tree, forest, dps, td, grid, sym=True):
    """Mismatches between `tree`'s cached values and a fresh rebuild of `forest` (list of (what, lhs, rhs))."""
    ref = forest.to_tree(dps, grid)
    ref.update()
    a, b = _arrays(tree), _arrays(ref)
    bad = []
    if set(a) != set(b):
        return [("shape", str(sorted(map(str, a))), str(sorted(map(str, b))))]
    for k in a:
        if k is None and not forest.blocks:
            # forest without clones: the virtual root's vectors are read by nothing (the densities skip the data term) and
            # have no single "fresh" value - Tree() leaves zeros, update()/from_dict write the prior - so they are not compared
            continue
        for which, x, y in (("log_p", a[k][0], b[k][0]), ("log_r", a[k][1], b[k][1])):
            for idx in ((d, g) for d in range(grid[0]) for g in range(grid[1])):
                bad.append((f"{which}[{'root' if k is None else sorted(k)}]{idx}", x[idx], y[idx]))
    bad.append(("log_p", td.log_p(tree), td.log_p(ref)))
    bad.append(("log_p_one", td.log_p_one(tree), td.log_p_one(ref)))
    return bad


def run_history(job, dps, td, choose):
    """Execute one history; `choose(n)` picks the next edit.  Returns (steps, live list incl. final tree)."""
    forest = _fj(job)
    grid = (job.get("D", 1), job["G"])
    tree = forest.to_tree(dps, grid)
    spares = list(range(job["n"], job["total"]))
    live = []
    steps = []
    for _ in range(job["L"]):
        ops = edits.enumerate_ops(forest, spares)
        k = choose(len(ops) + 1)
        if k == len(ops):
            break
        op = ops[k]
        steps.append(edits.describe(op, forest))
        tree, forest, spares = edits.apply_op(op, tree, forest, spares, dps, live)
    live.append((tree, forest))
    return steps, live


def work(job, structural_only=False):
    from phyclone.tree import FSCRPDistribution, TreeJointDistribution
    res = {"obligations": 0, "discharged": 0, "cex": [], "nontrivial": True, "histories": 0, "nontrivial_histories": 0, "live_trees": 0}
    CTX.new_session()
    CTX.sentinel_mode = "assume"
    G = job["G"]
    total = job["total"]
    D = job.get("D", 1)
    dps = [sym_dp(i, D, G) for i in range(total)]
    td = TreeJointDistribution(FSCRPDistribution(Lin(V.var("alpha"))))
    sample = {}

    def one():
        return run_history(job, dps, td, CTX.fork)

    def run():
        paths = CTX.explore(one, catch=(Exception,))
        for p in paths:
            res["histories"] += 1
            if p.exc is not None:
                res["obligations"] += 1
                res["cex"].append({"kind": "exception", "detail": repr(p.exc), "trace": [c for _, c, _ in p.trace]})
                continue
            steps, live = p.result
            if len(steps) >= 2:
                res["nontrivial_histories"] += 1
            res["live_trees"] += len(live)
            for tree, forest in live:
                res["obligations"] += 1
                probs = wellformed.problems(tree, expected_idxs=forest.data())
                if probs:
                    res["cex"].append({"kind": "malformed", "detail": probs[:3], "steps": steps, "trace": [c for _, c, _ in p.trace]})
                    continue
                res["discharged"] += 1
                if structural_only:
                    continue
                res["obligations"] += 1
                mism = None
                for what, x, y in compare(tree, forest, dps, td, (D, G)):
                    if what == "shape":
                        mism = (what, None)
                        break
                    ex = x.e if isinstance(x, Log) else V(1) if x == 0 else None
                    ey = y.e if isinstance(y, Log) else V(1) if y == 0 else None
                    c = ex.eq(ey)
                    if c is True:
                        continue
                    r, model = CTX.prove(c, use_pc=False)
                    if r == "unsat":
                        continue
                    if r == "sat":
                        mism = (what, model)
                        break
                    raise Inconclusive(f"rebuild identity unknown ({what})")
                if mism is None:
                    res["discharged"] += 1
                else:
                    res["cex"].append({"kind": "stale", "what": mism[0], "steps": steps, "trace": [c for _, c, _ in p.trace],
                                       "values": model_values(mism[1]) if mism[1] is not None else {}})
            if len(res["cex"]) >= 3:
                break
            if len(steps) == job["L"] and not sample:
                sample.update({"start": _fj(job).describe(), "history": steps, "live_trees_checked": len(live)})
    _, funcs = patcher.entered_functions(run)
    res["functions"] = funcs
    res["twin_ok"] = res["histories"] > 0
    res["status"] = "cex" if res["cex"] else "ok"
    for c in res["cex"]:
        c.update({"job": {k: job[k] for k in ("blocks", "parent", "outliers", "n", "L", "total", "G", "D") if k in job},
                  "finding_key": f"{job.get('prop', 'C06')}:{c['kind']}"})
    res["cex"] = res["cex"][:2]
    res["sample"] = sample or {"start": _fj(job).describe(), "histories": res["histories"]}
    return res


def replay(case, structural_only=False):
    from phyclone.tree import FSCRPDistribution, TreeJointDistribution
    job = case["job"]
    vals = case.get("values", {})
    dps = [float_dp(i, job.get("D", 1), job["G"], vals) for i in range(job["total"])]
    td = TreeJointDistribution(FSCRPDistribution(float(Fraction(vals.get("alpha", "7/10")))))
    it = iter(case["trace"])
    try:
        steps, live = run_history(job, dps, td, lambda n: next(it, n - 1))
    except Exception as e:  # noqa
        return case["kind"] == "exception", {"exception": repr(e)}
    worst = 0.0
    for tree, forest in live:
        probs = wellformed.problems(tree, expected_idxs=forest.data())
        if probs:
            return True, {"malformed": probs[:3], "steps": steps}
        if structural_only:
            continue
        for what, x, y in compare(tree, forest, dps, td, (job.get("D", 1), job["G"])):
            if what == "shape":
                return True, {"shape": True, "steps": steps}
            worst = max(worst, abs(float(x) - float(y)))
    return worst > 1e-7, {"max_abs_log_diff": worst, "steps": steps}


def evidence(tier, seed, results, canaries):
    agg, funcs, obligations, discharged = harness.aggregate(results)
    real = [r for r in results if not r["job"].get("canary")]
    return {
        "level": "other",
        "coverage": {
            "explanation": "Edit histories (choice points over the samplers' edit grammar, executed on the real Tree with symbolic data) "
                           "are enumerated exhaustively up to the stated length from every start forest; after each history every tree "
                           "still reachable (the final one, originals of copies, sibling prune-regraft candidates) is compared with a "
                           "tree rebuilt from scratch from the independently tracked abstract forest: z3 decides equality of every "
                           "node's log_p/log_r entry and of both joint densities for all positive data and alpha.",
            "functions_encoded": funcs,
            "bounds": {"quick": "start forests on 1-2 points (every outlier subset) with histories <= 3 edits, on 3 points (<= 1 outlier) with <= 2 edits; up to 4 data points in total",
                       "thorough": "<= 4 edits from 1 point, <= 3 from 2-3 points (two spare points at n=2), <= 2 from 4 points incl. one outlier", "grid": 2, "samples": "1; 2 samples for histories of <= 2 edits from every start forest on 2 points (thorough: also 3 points without outliers)",
                       "grammar": "add new point to top-level clone / new clone above any subset of top-level clones / new outlier / move a point between clones and outliers (copy-edit) / prune-regraft with all candidates built from one subtree object / subtree round trip through dict form / relabel / copy / dict round trip"},
            "outside_bounds": ["longer histories", "rounding drift (real arithmetic)", "grids > 2"],
            "obligations": obligations, "discharged": discharged,
            "evaluations": sum(r.get("histories", 0) for r in real), "distinct_nontrivial": sum(r.get("nontrivial_histories", 0) for r in real),
            "rule": "evaluations = edit histories executed (each a distinct sequence); non-trivial = at least two edits",
            "samples": [r["sample"] for r in real if r.get("sample")][:6],
            "live_trees_checked": sum(r.get("live_trees", 0) for r in real),
            "paths": agg["paths"], "queries": agg["queries"], "solver_s": agg["solver_s"],
            "verdicts": {k: agg[k] for k in ("sat", "unsat", "unknown")},
            "canaries": canaries, "reachability_twins": sum(1 for r in real if r.get("twin_ok")), "stubs": patcher.STUBS,
        },
        "assumptions": ["positive real data and alpha (real arithmetic)", "the abstract forest model in vsym/edits.py states what each edit should produce"],
    }
