"""C12 - result tables list every mutation once per sample, consistent with the accompanying tree.

Executed: get_clone_table, get_labels_table, the C10 code (symbolically: grid values are solver variables, so the
ccf columns follow the recursion's feasible paths), Tree.to_newick_string / GraphToNewickVisitor,
_create_results_output_files and write_map_results (gzip/pickle reading replaced by an in-memory trace).
pandas runs concretely; the structural columns have no numeric input (exploration level).
"""
import io
import itertools
import os
import re
import tempfile
from fractions import Fraction

from vsym import harness, patcher, mutate
from vsym.build import sym_dp, float_dp, model_values
from vsym.ctx import CTX, Inconclusive
from vsym.scalars import Log
from vsym.shapes import Forest, all_forests
from vsym.vq import V

META = {"property_id": "C12", "level": "exploration"}

CANARIES = {
    "edgeless_nodes_dropped": ("phyclone.process_trace.utils", "convert_rustworkx_to_networkx",
                               "nx_graph.add_nodes_from(node.node_id for node in graph.nodes())", "pass"),
    "outlier_rows_get_zero_ccf": ("phyclone.process_trace.process_trace", "get_clone_table", 'group["ccf"] = -1', 'group["ccf"] = 0'),
    "cluster_expansion_first_only": ("phyclone.process_trace.process_trace", "get_labels_table",
                                     "muts_set = muts.unique()", "muts_set = muts.unique()[:1]"),
}


def apply_canary(name):
    return mutate.mutate(*CANARIES[name])


def _fj(job):
    return Forest([tuple(b) for b in job["blocks"]], [None if p is None else int(p) for p in job["parent"]], job["outliers"], n=job["n"])


def jobs(tier, seed):
    out = []
    nmax = 3
    for n in range(1, nmax + 1):
        for f in all_forests(n, outliers=True):
            for clustered in (False, True):
                for D in ((1, 2) if (len(f.blocks) <= 2 or tier == "thorough") else (1,)):
                    out.append({"name": f"n{n}-D{D}-cl{int(clustered)}-{f.describe()}", "blocks": f.blocks, "parent": f.parent, "outliers": f.outliers,
                                "n": n, "D": D, "G": 3 if (len(f.blocks) <= 1 or (len(f.blocks) == 2 and D == 1)) else 2, "clustered": clustered, "empty": None,
                                "cost": (3 ** len(f.blocks)) ** D})
    # consensus can create a clone without own data above two others
    for outl in ((), (2,)):
        out.append({"name": f"empty-parent-out{len(outl)}", "blocks": ((0,), (1,)), "parent": (None, None), "outliers": outl, "n": 2 + len(outl), "D": 1,
                    "G": 2, "clustered": False, "empty": [0, 1], "cost": 5})
    allout = {"blocks": (), "parent": (), "outliers": (0, 1), "n": 2}
    out.append({"name": "canary-edgeless_nodes_dropped", "canary": "edgeless_nodes_dropped", **allout, "D": 1, "G": 2, "clustered": False, "empty": None, "cost": 5})
    out.append({"name": "canary-outlier_rows_get_zero_ccf", "canary": "outlier_rows_get_zero_ccf", "blocks": ((0,),), "parent": (None,), "outliers": (1,), "n": 2,
                "D": 1, "G": 2, "clustered": False, "empty": None, "cost": 5})
    out.append({"name": "canary-cluster_expansion_first_only", "canary": "cluster_expansion_first_only", "blocks": ((0,), (1,)), "parent": (None, 0),
                "outliers": (), "n": 2, "D": 1, "G": 2, "clustered": True, "empty": None, "cost": 5})
    return out


def make_inputs(job, vals=None):
    """data points (named as the loader names them), samples, cluster table, expected mutation list"""
    import pandas as pd
    n, D, G = job["n"], job["D"], job["G"]
    samples = ["s2", "s1"][:D]   # input order deliberately not the sorted order: per-sample columns are looked up by input position
    dps = []
    muts = {}
    for i in range(n):
        if job["clustered"]:
            name = str(10 + i)                      # the loader names a cluster's data point by its integer cluster id
            muts[i] = [f"m{i}a", f"m{i}b"] if i % 2 == 0 else [f"m{i}a"]
        else:
            name = f"m{i}"
            muts[i] = [name]
        dp = sym_dp(i, D, G, name=name) if vals is None else float_dp(i, D, G, vals, name=name)
        dps.append(dp)
    clusters = None
    if job["clustered"]:
        rows = [{"mutation_id": m, "cluster_id": 10 + i} for i in range(n) for m in muts[i]]
        # the cluster file also lists a cluster all of whose mutations the loader dropped (copy number zero / not in every sample):
        # it has no data point, sorts between the others, and its mutations must come out as outliers
        rows.insert(len(muts[0]), {"mutation_id": "mDropped", "cluster_id": 9})        # id 9 sorts before every surviving cluster
        clusters = pd.DataFrame(rows)
        muts["dropped"] = ["mDropped"]
    return dps, samples, clusters, muts


def build_tree(job, dps):
    f = _fj(job)
    tree = f.to_tree(dps, (job["D"], job["G"]))
    if job.get("empty"):
        nm = {frozenset(dp.idx for dp in tree.get_data(x)): x for x in tree.nodes}
        tree.create_root_node(children=[nm[frozenset(f.blocks[i])] for i in job["empty"]], data=[])
    return f, tree


def check_table(job, f, tree, table, muts, samples, newick, oracle=None):
    """Ground assertions on the produced table; returns a problem string or None."""
    names = set(int(x) for x in re.findall(r"-?\d+", newick.replace("root", "")))
    rows = table.to_dict("records")
    want = {(m, s) for ms in muts.values() for m in ms for s in samples}
    got = [(r["mutation_id"], r["sample_id"]) for r in rows]
    if sorted(got) != sorted(want):
        return f"(mutation, sample) pairs {sorted(got)} != expected {sorted(want)}"
    label_of = {}
    for name in tree.nodes:
        for dp in tree.get_data(name):
            label_of[dp.idx] = name
    by_clone = {}
    for r in rows:
        i = [k for k, ms in muts.items() if r["mutation_id"] in ms][0]
        expected_clone = label_of.get(i, -1) if i != "dropped" else -1
        if r["clone_id"] != expected_clone:
            return f"mutation {r['mutation_id']} reported in clone {r['clone_id']}, tree says {expected_clone}"
        if r["clone_id"] != -1 and int(r["clone_id"]) not in names:
            return f"clone id {r['clone_id']} is not a node of the Newick tree {newick}"
        if job["clustered"] and i != "dropped" and int(r["cluster_id"]) != 10 + i:
            return f"cluster id of {r['mutation_id']} is {r['cluster_id']}"
        ccf, prev = float(r["ccf"]), float(r["clonal_prev"])
        if r["clone_id"] == -1:
            if ccf != -1 or prev != -1:
                return "outlier row without -1 ccf / prevalence"
        else:
            if not (0 <= ccf <= 1 and -1e-12 <= prev <= 1):
                return f"ccf {ccf} / prevalence {prev} outside [0,1]"
            key = (r["clone_id"], r["sample_id"])
            if oracle is not None:
                # "those of that clone": the MAP values of this clone in THIS sample (input position of the sample)
                k = samples.index(r["sample_id"])
                wc, wp = float(oracle[0][r["clone_id"]][k]), float(oracle[1][r["clone_id"]][k])
                if abs(ccf - wc) > 1e-12 or abs(prev - wp) > 1e-12:
                    return f"clone {r['clone_id']} sample {r['sample_id']}: table ccf/prevalence {ccf}/{prev}, MAP estimate of that clone and sample {wc}/{wp}"
            if by_clone.setdefault(key, (ccf, prev)) != (ccf, prev):
                return f"rows of clone {r['clone_id']} disagree on ccf"
    # ccf structure: parent >= sum of children, prevalence = difference, top-level sum <= 1 (per sample)
    for s in samples:
        def c(nm):
            return by_clone.get((nm, s))
        for nm in tree.nodes:
            if c(nm) is None:
                continue
            kids = [k for k in tree.get_children(nm)]
            if all(c(k) is not None for k in kids):
                tot = sum(c(k)[0] for k in kids)
                if c(nm)[0] + 1e-12 < tot or abs(c(nm)[1] - (c(nm)[0] - tot)) > 1e-12:
                    return f"clone {nm}: ccf {c(nm)[0]} vs children {tot}, prevalence {c(nm)[1]}"
        tops = [c(r)[0] for r in tree.roots if c(r) is not None]
        if sum(tops) > 1 + 1e-12:
            return f"top-level ccfs sum to {sum(tops)}"
    return None


def produce(job, dps, samples, clusters, tree):
    """The table as the map command writes it (real write_map_results over an in-memory one-entry trace) and as
    get_clone_table returns it for a tree object; both must agree."""
    import phyclone.process_trace.process_trace as pt
    import pandas as pd
    table = pt.get_clone_table(dps, samples, tree, clusters=clusters)
    if job.get("empty"):
        # a clone without own data only arises in the consensus command, which hands its tree straight to
        # get_clone_table and the output writer (no trace entry ever holds such a tree)
        with tempfile.TemporaryDirectory() as td:
            tfile, nfile = os.path.join(td, "t.tsv"), os.path.join(td, "t.nwk")
            pt._create_results_output_files(tfile, nfile, pd.DataFrame(table), tree)
            return table, pd.read_csv(tfile, sep="\t"), open(nfile).read().strip()
    results = {0: {"data": dps, "samples": samples, "trace": [{"iter": 0, "alpha": 1.0, "log_p_one": 0.0, "tree": tree.to_dict(), "time": 0.0}], "chain_num": 0}}
    if clusters is not None:
        results[0]["clusters"] = clusters

    class GZ:
        class GzipFile:
            def __init__(self, *a, **k):
                pass

            def __enter__(self):
                return self

            def __exit__(self, *a):
                return False

    class PK:
        @staticmethod
        def load(fh):
            return results
    old = (pt.gzip, pt.pickle)
    pt.gzip, pt.pickle = GZ, PK
    try:
        with tempfile.TemporaryDirectory() as td:
            tfile, nfile = os.path.join(td, "t.tsv"), os.path.join(td, "t.nwk")
            pt.write_map_results("in", tfile, nfile)
            written = pd.read_csv(tfile, sep="\t")
            newick = open(nfile).read().strip()
    finally:
        pt.gzip, pt.pickle = old
    return table, written, newick


def work(job):
    res = {"obligations": 0, "discharged": 0, "cex": [], "nontrivial": len(job["blocks"]) > 1 or bool(job["outliers"]), "paths_total": 0}
    CTX.new_session()
    CTX.sentinel_mode = "assume"
    dps, samples, clusters, muts = make_inputs(job)
    f, tree = build_tree(job, dps)

    def one():
        table, written, newick = produce(job, dps, samples, clusters, tree)
        from phyclone.process_trace.map import get_map_node_ccfs_and_clonal_prev_dicts
        oracle = get_map_node_ccfs_and_clonal_prev_dicts(tree)   # C10's subject; same comparisons, so no new paths
        p1 = check_table(job, f, tree, table, muts, samples, tree.to_newick_string(), oracle)
        p2 = check_table(job, f, tree, written, muts, samples, newick, oracle)
        same = len(table) == len(written)
        return p1 or p2 or (None if same else "written table differs from get_clone_table")

    def run():
        return CTX.explore(one, catch=(Exception,), max_paths=50000)
    paths, funcs = patcher.entered_functions(run)
    res["functions"] = funcs
    res["paths_total"] = len(paths)
    for p in paths:
        res["obligations"] += 1
        problem = repr(p.exc) if p.exc is not None else p.result
        if problem:
            r, model = CTX.check(p.pc, want_model=True)
            res["cex"].append({"kind": "exception" if p.exc is not None else "bad-table", "detail": problem, "values": model_values(model) if model else {}})
            break
        res["discharged"] += 1
    res["twin_ok"] = len(paths) > 0
    res["status"] = "cex" if res["cex"] else "ok"
    for c in res["cex"]:
        c.update({"finding_key": "C12:" + c["kind"], "job": {k: job.get(k) for k in ("blocks", "parent", "outliers", "n", "D", "G", "clustered", "empty")}})
    res["sample"] = {"forest": f.describe() + (" + empty parent clone" if job.get("empty") else ""), "clustered": job["clustered"], "samples": job["D"],
                     "paths": len(paths), "rows": sum(len(v) for v in muts.values()) * job["D"]}
    return res


def replay(case):
    job = case["job"]
    dps, samples, clusters, muts = make_inputs(job, vals=case.get("values", {}))
    f, tree = build_tree(job, dps)
    try:
        table, written, newick = produce(job, dps, samples, clusters, tree)
    except Exception as e:  # noqa
        return True, {"exception": repr(e)}
    from phyclone.process_trace.map import get_map_node_ccfs_and_clonal_prev_dicts
    oracle = get_map_node_ccfs_and_clonal_prev_dicts(tree)
    p = check_table(job, f, tree, table, muts, samples, tree.to_newick_string(), oracle) or check_table(job, f, tree, written, muts, samples, newick, oracle)
    return bool(p), p


def evidence(tier, seed, results, canaries):
    agg, funcs, obligations, discharged = harness.aggregate(results)
    real = [r for r in results if not r["job"].get("canary")]
    return {
        "level": "exploration",
        "coverage": {
            "evaluations": sum(r.get("paths_total", 0) for r in real),
            "distinct_nontrivial": sum(1 for r in real if r.get("nontrivial")),
            "rule": "one case per (forest incl. every outlier subset - all and none included, clustered or not, number of samples) on <= 3 data points "
                    "/ clusters, plus trees with a data-less parent clone as consensus creates; evaluations = feasible paths of the CCF recursion "
                    "(grid values symbolic) each producing one table; non-trivial = more than one clone or at least one outlier",
            "samples": [r["sample"] for r in real if r.get("sample")][:8],
            "exhaustive": True,
            "explanation": "get_clone_table and the real write_map_results (in-memory trace, real files in a temporary directory read back) are run on "
                           "every tree within the bound; on every path: each (mutation, sample) exactly once, clone ids are Newick nodes or -1, "
                           "cluster mates share their clone, ccf / prevalence equal get_map_node_ccfs_and_clonal_prev_dicts (C10's subject) for that clone at the input position of that sample - samples are given in non-sorted order - (in [0,1], parent >= children, prevalence = difference) "
                           "or -1 for outliers, no exception. The structural columns have no numeric input; z3 only decides which CCF paths exist.",
            "functions_encoded": funcs, "obligations": obligations, "discharged": discharged,
            "paths": agg["paths"], "queries": agg["queries"], "solver_s": agg["solver_s"], "canaries": canaries,
            "stubs": patcher.STUBS + ["gzip.GzipFile / pickle.load in process_trace -> in-memory one-entry trace"],
        },
        "assumptions": ["pandas internals are executed concretely", "cluster ids are integers and a clustered data point is named by its cluster id, as the loader does"],
    }
