"""C13 - the concentration update is an exact Gibbs step (Escobar-West) and is wired correctly.

Executed symbolically: GammaPriorConcentrationSampler.sample, run.update_concentration_value,
FSCRPDistribution.alpha setter.  scipy.stats.{beta,gamma,bernoulli}.rvs are recorders returning fresh symbolic
draws (the auxiliary draw enters only through l = log(eta) < 0).  Symbolic: a, b, alpha > 0, 1 <= K <= n (reals).
"""
from fractions import Fraction

import z3

from vsym import harness, patcher, mutate
from vsym.build import sym_dp
from vsym.ctx import CTX, Inconclusive
from vsym.scalars import Log, Lin
from vsym.shapes import all_forests
from vsym.vq import V, fresh

META = {"property_id": "C13", "level": "other"}

CANARIES = {
    "shape_off_by_one": ("phyclone.mcmc.concentration", "GammaPriorConcentrationSampler.sample", "shape = a + k - 1", "shape = a + k"),
    "beta_wrong_first_parameter": ("phyclone.mcmc.concentration", "GammaPriorConcentrationSampler.sample",
                                   "eta = beta.rvs(a=old_value + 1, b=n, random_state=self._rng)", "eta = beta.rvs(a=old_value, b=n, random_state=self._rng)"),
    "outliers_counted_as_data": ("phyclone.run", "update_concentration_value", "        if node == outlier_node_name:\n            continue\n", ""),
}


def apply_canary(name):
    return mutate.mutate(*CANARIES[name])


class Eta:
    """The Beta draw: the code only takes its logarithm; l = log(eta) is a fresh real < 0 (linear domain)."""

    def __init__(self):
        self.m = V.var("__neg_log_eta")   # fixed name: the same unknown on every re-execution of the path prefix

    def vsym_log(self):
        return Lin(-self.m)


class Recorder:
    def __init__(self):
        self.calls = []

    def install(self):
        import phyclone.mcmc.concentration as mod
        rec = self

        class _Beta:
            @staticmethod
            def rvs(a=None, b=None, random_state=None, **kw):
                rec.calls.append(("beta", a, b, random_state))
                e = Eta()
                rec.eta = e
                return e

        class _Bern:
            @staticmethod
            def rvs(p, random_state=None, **kw):
                rec.calls.append(("bernoulli", p, random_state))
                z = CTX.fork(2)
                rec.z = z
                return z

        class _Gamma:
            @staticmethod
            def rvs(shape, scale=None, random_state=None, **kw):
                rec.calls.append(("gamma", shape, scale, random_state))
                g = Lin(V.var("__gamma_draw"))
                rec.g = g
                return g
        old = (mod.beta, mod.bernoulli, mod.gamma)
        mod.beta, mod.bernoulli, mod.gamma = _Beta, _Bern, _Gamma

        def undo():
            mod.beta, mod.bernoulli, mod.gamma = old
        return undo


def jobs(tier, seed):
    out = [{"name": "sampler-algebra", "kind": "algebra", "cost": 5}, {"name": "prior-branch-K0", "kind": "k0", "cost": 1}]
    nmax = 3 if tier == "quick" else 4
    for n in range(1, nmax + 1):
        out.append({"name": f"call-site-n{n}", "kind": "callsite", "n": n, "cost": n ** 2})
    out.append({"name": "canary-shape_off_by_one", "canary": "shape_off_by_one", "kind": "algebra", "cost": 5})
    out.append({"name": "canary-beta_wrong_first_parameter", "canary": "beta_wrong_first_parameter", "kind": "algebra", "cost": 5})
    out.append({"name": "canary-outliers_counted_as_data", "canary": "outliers_counted_as_data", "kind": "callsite", "n": 2, "cost": 5})
    return out


def _prove(res, claim, what, extra=()):
    res["obligations"] += 1
    if isinstance(claim, bool):
        if claim:
            res["discharged"] += 1
            return True
        res["cex"].append({"kind": what, "values": {}})
        return False
    r, model = CTX.prove(claim, extra=extra, use_pc=False)
    if r == "unsat":
        res["discharged"] += 1
        return True
    if r == "sat":
        from vsym.build import model_values
        from vsym.vq import REG
        if "K" in REG.variables and "n" in REG.variables:
            # prefer a witness with integral K <= n (what a tree can produce) in a moderate box, for the replay
            Kz, nz = REG.variables["K"][0], REG.variables["n"][0]
            ints = z3.And(z3.Or([Kz == k for k in (1, 2, 3)]), z3.Or([nz == Kz + d for d in (0, 1, 2, 3)]))
            r2, m2 = CTX.prove(claim, extra=list(extra) + [ints], use_pc=False, box=(Fraction(1, 20), 20))
            if r2 == "sat":
                model = m2
        res["cex"].append({"kind": what, "values": model_values(model)})
        return False
    raise Inconclusive(what + ": unknown")


def work(job):
    from phyclone.mcmc.concentration import GammaPriorConcentrationSampler
    res = {"obligations": 0, "discharged": 0, "cex": [], "nontrivial": True}
    CTX.new_session()
    rec = Recorder()
    undo = rec.install()
    try:
        if job["kind"] == "algebra":
            funcs = _algebra(res, rec)
        elif job["kind"] == "k0":
            funcs = _k0(res, rec)
        else:
            funcs = _callsite(res, rec, job["n"])
    finally:
        undo()
    res["functions"] = funcs
    res["twin_ok"] = res["obligations"] > 0
    res["status"] = "cex" if res["cex"] else "ok"
    for c in res["cex"]:
        c.update({"finding_key": "C13:" + c["kind"], "job": {k: job.get(k) for k in ("kind", "n")}})
    return res


def _algebra(res, rec):
    from phyclone.mcmc.concentration import GammaPriorConcentrationSampler
    a, b, al = V.var("a"), V.var("b"), V.var("alpha")
    K, n = V.var("K"), V.var("n")
    CTX.assume(K.ge(V(1)))
    CTX.assume(n.ge(K))
    rng = object()
    s = GammaPriorConcentrationSampler(Lin(a), Lin(b), rng)

    x = V.var("x")

    def one():
        """run sample() and form every claim while the path's sign knowledge is valid"""
        new_value = s.sample(Lin(al), Lin(K), Lin(n))
        calls, z, eta, g = list(rec.calls), rec.z, rec.eta, rec.g
        kinds = [c[0] for c in calls]
        claims = [("draw-sequence", kinds == ["beta", "bernoulli", "gamma"])]
        if kinds != ["beta", "bernoulli", "gamma"]:
            return z, claims
        _, ba, bb, brng = calls[0]
        claims.append(("beta-first-parameter", (al + 1).eq(_v(ba))))
        claims.append(("beta-second-parameter", _v(bb).eq(n)))
        claims.append(("draws-use-the-given-generator", brng is rng and calls[1][2] is rng and calls[2][3] is rng))
        l = -eta.m                      # log(eta)
        rate = b - l
        shape0 = a + K - 1
        pi = _v(calls[1][1])
        # odds of the two mixture components:  pi * n * (b - l) == (1 - pi) * (a + K - 1)
        claims.append(("mixture-odds", (pi * n * rate).eq((V(1) - pi) * shape0)))
        claims.append(("pi-in-unit-interval", z3.And(_b(pi.gt(V(0))), _b(pi.lt(V(1))))))
        _, gshape, gscale, _ = calls[2]
        claims.append(("gamma-shape", _v(gshape).eq(shape0 + z)))
        claims.append(("gamma-scale", (_v(gscale) * rate).eq(V(1))))
        # mixture density proportional to x^(a+K-2) (x+n) exp(-x(b-l)):  pi*rate*x/shape + (1-pi) == ((1-pi)/n) (x+n)
        # (uses Gamma(s+1) = s Gamma(s); the common factor rate^s x^(s-1) e^(-rate x) / Gamma(s) is divided out)
        claims.append(("mixture-density", (pi * rate * x * n + (V(1) - pi) * shape0 * n).eq((V(1) - pi) * (x + n) * shape0)))
        # returned value is the gamma draw (or the 1e-10 clamp when the draw is below it)
        claims.append(("returned-value", z3.Or(_b(new_value.e.eq(g.e)) if isinstance(new_value, Lin) else z3.BoolVal(False),
                                               z3.And(_b(g.e.le(V(1e-10))), z3.BoolVal(_is_clamp(new_value))))))
        return z, claims

    def run():
        return CTX.explore(one, before_path=lambda: rec.calls.clear())
    paths, funcs = patcher.entered_functions(run)
    zs = set()
    for p in paths:
        z, claims = p.result
        zs.add(z)
        for what, claim in claims:
            _prove(res, claim, what, extra=p.pc)
    _prove(res, zs == {0, 1}, "both-bernoulli-outcomes-explored")
    res["sample"] = {"case": "sample(alpha, K, n) with symbolic a, b, alpha, K, n, log(eta)", "paths": len(paths), "identities": res["obligations"]}
    return funcs


def _v(x):
    """V of a Lin or of a plain number (a mutated sampler may hand plain floats to the draws)"""
    if isinstance(x, Lin):
        return x.e
    return V(x)


def _is_clamp(v):
    return isinstance(v, float) and v == 1e-10


def _b(x):
    return z3.BoolVal(x) if isinstance(x, bool) else x


def _k0(res, rec):
    from phyclone.mcmc.concentration import GammaPriorConcentrationSampler
    a, b, al = V.var("a"), V.var("b"), V.var("alpha")
    s = GammaPriorConcentrationSampler(Lin(a), Lin(b), None)

    def run():
        return CTX.explore(lambda: (s.sample(Lin(al), 0, 0), list(rec.calls)), before_path=lambda: rec.calls.clear())
    paths, funcs = patcher.entered_functions(run)
    for p in paths:
        new_value, calls = p.result
        _prove(res, [c[0] for c in calls] == ["gamma"], "k0-draws-from-prior-only")
        if calls and calls[0][0] == "gamma":
            _prove(res, calls[0][1].e.eq(a), "k0-shape", extra=p.pc)
            _prove(res, (calls[0][2].e * b).eq(V(1)), "k0-scale", extra=p.pc)
    res["sample"] = {"case": "K = 0 (tree without clones): draw from the Gamma(a, b) prior", "paths": len(paths)}
    return funcs


def _callsite(res, rec, n):
    """run.update_concentration_value passes K and n with outliers excluded and stores the new value in the shared prior."""
    import phyclone.run as prun
    from phyclone.tree import FSCRPDistribution, TreeJointDistribution
    from phyclone.mcmc.concentration import GammaPriorConcentrationSampler
    seen = []

    class Spy(GammaPriorConcentrationSampler):
        __slots__ = ()

        def sample(self, old_value, num_clusters, num_data_points):
            seen.append((old_value, num_clusters, num_data_points))
            return Lin(V.var("alpha_new"))
    cases = 0

    def run():
        nonlocal cases
        dps = [sym_dp(i, 1, 2) for i in range(n)]
        for f in all_forests(n, outliers=True):
            cases += 1
            al = Lin(V.var("alpha"))
            td = TreeJointDistribution(FSCRPDistribution(al))
            tree = f.to_tree(dps, (1, 2))
            tree.relabel_nodes()
            del seen[:]
            before = td.log_p_one(tree) if f.blocks else None
            prun.update_concentration_value(Spy(Lin(V.var("a")), Lin(V.var("b")), None), tree, td)
            ok = len(seen) == 1 and seen[0][0] is al and seen[0][1] == len(f.blocks) and seen[0][2] == sum(len(b) for b in f.blocks)
            _prove(res, ok, "call-site-K-n")
            if not ok:
                res["cex"][-1]["detail"] = f"forest {f.describe()}: passed (K, n) = {seen[0][1:] if seen else None}"
                res["cex"][-1]["forest"] = {"blocks": f.blocks, "parent": f.parent, "outliers": f.outliers, "n": n}
                return
            new = V.var("alpha_new")
            ncex = len(res["cex"])
            _prove(res, td.prior.alpha.e.eq(new), "new-alpha-stored")
            _prove(res, td.prior.log_alpha.e.eq(new), "log-alpha-refreshed")
            if f.blocks:
                after = td.log_p_one(tree)
                # every later density evaluation uses the new value: log_p_one scales by (new/old)^K
                K = len(f.blocks)
                _prove(res, (after.e * al.e.pow(K)).eq(before.e * new.pow(K)), "later-densities-use-new-alpha")
            for c in res["cex"][ncex:]:
                c["forest"] = {"blocks": f.blocks, "parent": f.parent, "outliers": f.outliers, "n": n}
            if len(res["cex"]) > ncex:
                return
    _, funcs = patcher.entered_functions(run)
    res["sample"] = {"case": f"update_concentration_value on all {cases} forests over {n} data points (every outlier subset)"}
    return funcs


def replay(case):
    """Concrete re-run with recording stand-ins for the three scipy draws."""
    import phyclone.mcmc.concentration as mod
    import phyclone.run as prun
    import math
    import numpy as np
    calls = []

    class B:
        @staticmethod
        def rvs(a=None, b=None, random_state=None):
            calls.append(("beta", a, b))
            return 0.37

    class Be:
        @staticmethod
        def rvs(p, random_state=None):
            calls.append(("bernoulli", p))
            return 1

    class G:
        @staticmethod
        def rvs(shape, scale=None, random_state=None):
            calls.append(("gamma", shape, scale))
            return 0.9
    old = (mod.beta, mod.bernoulli, mod.gamma)
    mod.beta, mod.bernoulli, mod.gamma = B, Be, G
    try:
        if case["job"]["kind"] == "callsite":
            from phyclone.tree import FSCRPDistribution, TreeJointDistribution
            from vsym.build import float_dp
            from vsym.shapes import Forest
            fj = case.get("forest")
            if not fj:
                return False, "no forest recorded"
            f = Forest([tuple(b) for b in fj["blocks"]], fj["parent"], fj["outliers"], n=fj["n"])
            dps = [float_dp(i, 1, 2, {}) for i in range(fj["n"])]
            td = TreeJointDistribution(FSCRPDistribution(1.3))
            tree = f.to_tree(dps, (1, 2))
            tree.relabel_nodes()
            td.log_p_one(tree)          # as in the run loop, densities have been evaluated on the tree before the update
            prun.update_concentration_value(mod.GammaPriorConcentrationSampler(0.01, 0.01, None), tree, td)
            K, n = len(f.blocks), sum(len(b) for b in f.blocks)
            want_shape = 0.01 + K - 1 + 1
            got = [c for c in calls if c[0] == "gamma"]
            beta_call = [c for c in calls if c[0] == "beta"]
            bad = (K > 0 and (not beta_call or beta_call[0][2] != n or abs(got[0][1] - want_shape) > 1e-12)) or td.prior.alpha != 0.9
            # every later density evaluation must use the stored value
            fresh = TreeJointDistribution(FSCRPDistribution(0.9))
            drift = abs(float(td.log_p_one(tree)) - float(fresh.log_p_one(tree))) + abs(float(td.log_p(tree)) - float(fresh.log_p(tree)))
            bad = bad or drift > 1e-9 or abs(float(td.prior.log_alpha) - math.log(0.9)) > 1e-12
            return bad, {"calls": calls, "expected_K_n": (K, n), "density_drift_after_update": drift}
        vals = {k: float(Fraction(v)) for k, v in case.get("values", {}).items()}
        a, b, alpha = vals.get("a", 0.7), vals.get("b", 1.9), vals.get("alpha", 1.3)
        K = max(1, int(round(vals.get("K", 3))))
        n = max(K, int(round(vals.get("n", 5))))
        mod.GammaPriorConcentrationSampler(a, b, None).sample(alpha, K, n)
        rate = b - math.log(0.37)
        shape = a + K - 1
        pi_want = (shape / (n * rate)) / (1 + shape / (n * rate))
        ok = (calls[0] == ("beta", alpha + 1, n) and abs(calls[1][1] - pi_want) < 1e-12
              and abs(calls[2][1] - (shape + 1)) < 1e-12 and abs(calls[2][2] - 1 / rate) < 1e-12)
        return (not ok), {"calls": calls, "expected": [("beta", alpha + 1, n), ("bernoulli", pi_want), ("gamma", shape + 1, 1 / rate)]}
    finally:
        mod.beta, mod.bernoulli, mod.gamma = old


def evidence(tier, seed, results, canaries):
    agg, funcs, obligations, discharged = harness.aggregate(results)
    real = [r for r in results if not r["job"].get("canary")]
    return {
        "level": "other",
        "coverage": {
            "explanation": "sample() is executed symbolically with recorders for the three scipy draws; z3 proves for all a, b, alpha > 0, "
                           "1 <= K <= n (real-valued, a superset of the integers) and all log(eta) < 0 that the Beta draw has parameters "
                           "(alpha+1, n), the Bernoulli probability satisfies the Escobar-West odds, the Gamma draw has shape a+K-1+z and "
                           "scale 1/(b - log eta), and the resulting mixture density is proportional to x^(a+K-2)(x+n)exp(-x(b-log eta)). "
                           "The call site is executed on every forest within the bound: K and n exclude outliers, the new value and its "
                           "logarithm are stored in the shared prior, and the next log_p_one uses it.",
            "functions_encoded": funcs, "obligations": obligations, "discharged": discharged,
            "bounds": {"algebra": "unbounded in a, b, alpha, K, n, log(eta) (real-valued unknowns)", "call site": "all forests on <= 3 (quick) / 4 (thorough) data points, every outlier subset"},
            "evaluations": len(real) + sum(1 for r in real), "distinct_nontrivial": len(real),
            "rule": "cases = the sampler algebra, the K=0 branch and one call-site sweep per number of data points; all non-trivial",
            "samples": [r["sample"] for r in real if r.get("sample")],
            "paths": agg["paths"], "queries": agg["queries"], "solver_s": agg["solver_s"],
            "verdicts": {k: agg[k] for k in ("sat", "unsat", "unknown")}, "canaries": canaries, "stubs": patcher.STUBS +
            ["scipy.stats.beta/bernoulli/gamma .rvs -> recorders returning fresh symbolic draws (log of the Beta draw is a fresh real < 0)"],
        },
        "assumptions": ["that the Escobar-West auxiliary-variable scheme is a valid Gibbs step is the cited theorem; the check establishes that the code draws from exactly that scheme",
                        "Gamma(s+1) = s Gamma(s)"],
    }
